"""Exhaustive exploration engine.

A *family* enumerates a finite space of cases (build programs, histories, constructor inputs, edge
subsets ...) completely and executes every case on the real library, comparing with a reference
model.  The engine splits the space into shards, runs the shards on a process pool, and merges
coverage counters.  Nothing is sampled: every case of every shard is executed; VERIF_SEED only
permutes the order in which shards are handed to workers.
"""
import hashlib
import json
import multiprocessing as mp
import os
import random
import sys
import time
import traceback
from dataclasses import dataclass, field
from typing import Any, Iterable, Iterator, List, Optional, Tuple

import numpy as np

MASK = (1 << 64) - 1
MAX_FAILS_PER_SHARD = 40  # failures kept (in enumeration order) per shard and code; all are counted


class HarnessError(Exception):
    """The harness cannot observe what it needs (e.g. a seam it wraps no longer exists): exit 2, never a VIOLATION."""


def h64(obj: Any) -> int:
    """Stable 64-bit hash of a repr-able value (independent of PYTHONHASHSEED)."""
    return int.from_bytes(hashlib.blake2b(repr(obj).encode(), digest_size=8).digest(), 'little')


@dataclass
class Res:
    """Outcome of executing one case."""
    fails: List[Tuple[str, str]] = field(default_factory=list)  # (code, detail)
    outcome: Any = None        # observation vector (repr-able); used for distinct-outcome counting and the digest
    states: Iterable[Any] = ()  # canonical states visited (repr-able), hashed for coverage counting only
    transitions: int = 0       # events executed on the real implementation
    validated: int = 0         # reference-model traces compared with the implementation in this case
    trivial: bool = False      # by the family's stated rule
    extra: Optional[dict] = None  # counters merged by summation (e.g. {'known:F2': 1})

    def fail(self, code: str, detail: Any = ''):
        self.fails.append((code, detail if isinstance(detail, str) else repr(detail)))


class Family:
    """Base class: one finite case space + oracle."""
    name = 'family'
    rule = ''

    def shards(self, tier: str) -> List[Any]:
        raise NotImplementedError

    def cases(self, tier: str, shard: Any) -> Iterator[Any]:
        raise NotImplementedError

    def run(self, case: Any) -> Res:
        raise NotImplementedError

    def describe(self, tier: str) -> dict:
        return {}

    # a hook to bracket a whole shard (e.g. a duration override in force for all cases)
    def setup(self, tier: str, shard: Any):
        return None


def stride_shards(n: int) -> List[Tuple[int, int]]:
    return [(k, n) for k in range(n)]


def stride(it: Iterable[Any], shard: Tuple[int, int]) -> Iterator[Any]:
    k, n = shard
    for i, c in enumerate(it):
        if i % n == k:
            yield c


_FAMILIES = {}


def _worker(args):
    prop, fam_name, tier, shard, shard_no = args
    from mc import world
    fam: Family = _FAMILIES[fam_name]
    t0 = time.time()
    n = trans = valid = 0
    digest = 0
    states: List[int] = []
    outcomes: List[int] = []
    nontrivial: List[int] = []
    fails = {}
    fail_counts = {}
    extra = {}
    samples = []
    harness_errors = []
    fam.setup(tier, shard)
    for case in fam.cases(tier, shard):
        world.reset()
        try:
            r = fam.run(case)
        except HarnessError as e:
            harness_errors.append({'case': case, 'harness_error': str(e)})
            r = Res()
        except Exception as e:  # an exception escaping the oracle is a finding in itself
            r = Res()
            r.fail('EXC:' + type(e).__name__, traceback.format_exc(limit=6)[-900:])
        n += 1
        trans += r.transitions
        valid += r.validated
        oh = h64(r.outcome)
        outcomes.append(oh)
        if not r.trivial:
            nontrivial.append(oh)
        digest = (digest + h64((case, r.outcome, sorted(c for c, _ in r.fails)))) & MASK
        for s in r.states:
            states.append(h64(s))
        if r.extra:
            for k, v in r.extra.items():
                extra[k] = extra.get(k, 0) + v
        if shard_no == 0 and len(samples) < 3:
            samples.append({'case': case, 'outcome': _short(r.outcome)})
        if r.fails:
            # "prove you own the nondeterminism": the same case must fail the same way twice more
            codes = sorted(c for c, _ in r.fails)
            for _ in range(2):
                world.reset()
                try:
                    r2 = fam.run(case)
                    codes2 = sorted(c for c, _ in r2.fails)
                except Exception as e:
                    codes2 = ['EXC:' + type(e).__name__]
                if codes2 != codes:
                    harness_errors.append({'case': case, 'first': codes, 'again': codes2})
            for code, detail in r.fails:
                fail_counts[code] = fail_counts.get(code, 0) + 1
                lst = fails.setdefault(code, [])
                if len(lst) < MAX_FAILS_PER_SHARD:
                    lst.append({'family': fam_name, 'case': case, 'code': code, 'detail': detail})
    return {
        'family': fam_name, 'shard_no': shard_no, 'n': n, 'transitions': trans, 'validated': valid,
        'digest': digest,
        'states': np.unique(np.array(states, dtype=np.uint64)),
        'outcomes': np.unique(np.array(outcomes, dtype=np.uint64)),
        'nontrivial': np.unique(np.array(nontrivial, dtype=np.uint64)),
        'fails': fails, 'fail_counts': fail_counts, 'extra': extra, 'samples': samples,
        'harness_errors': harness_errors, 'wall': time.time() - t0,
    }


def _short(o, limit=600):
    s = repr(o)
    return s if len(s) <= limit else s[:limit] + '...'


def explore(prop: str, families: List[Family], tier: str, seed: int, workers: Optional[int] = None) -> dict:
    """Run every shard of every family; return merged coverage."""
    global _FAMILIES
    _FAMILIES = {f.name: f for f in families}
    jobs = []
    for f in families:
        for i, sh in enumerate(f.shards(tier)):
            jobs.append((prop, f.name, tier, sh, i))
    rnd = random.Random(seed)
    # shard 0 of each family supplies the samples; keep it, permute everything
    rnd.shuffle(jobs)
    workers = workers or int(os.environ.get('VERIF_WORKERS', '0')) or min(16, os.cpu_count() or 1)
    workers = max(1, min(workers, len(jobs)))
    t0 = time.time()
    results = []
    if workers == 1:
        for j in jobs:
            results.append(_worker(j))
    else:
        ctx = mp.get_context('fork')
        with ctx.Pool(workers) as pool:
            for r in pool.imap_unordered(_worker, jobs, chunksize=1):
                results.append(r)
    merged = {
        'executions': 0, 'transitions': 0, 'validated': 0, 'digest': 0,
        'fails': [], 'fail_counts': {}, 'extra': {}, 'samples': [], 'harness_errors': [],
        'per_family': {},
    }
    st, oc, nt = [], [], []
    for r in sorted(results, key=lambda r: (r['family'], r['shard_no'])):
        merged['executions'] += r['n']
        merged['transitions'] += r['transitions']
        merged['validated'] += r['validated']
        merged['digest'] = (merged['digest'] + r['digest']) & MASK
        st.append(r['states']); oc.append(r['outcomes']); nt.append(r['nontrivial'])
        for code, lst in r['fails'].items():
            merged['fails'].extend(lst)
        for code, c in r['fail_counts'].items():
            merged['fail_counts'][code] = merged['fail_counts'].get(code, 0) + c
        for k, v in r['extra'].items():
            merged['extra'][k] = merged['extra'].get(k, 0) + v
        merged['samples'].extend(r['samples'])
        merged['harness_errors'].extend(r['harness_errors'])
        pf = merged['per_family'].setdefault(r['family'], {'executions': 0, 'shards': 0})
        pf['executions'] += r['n']; pf['shards'] += 1
    merged['states'] = int(len(np.unique(np.concatenate(st)))) if st else 0
    merged['distinct_outcomes'] = int(len(np.unique(np.concatenate(oc)))) if oc else 0
    merged['distinct_nontrivial'] = int(len(np.unique(np.concatenate(nt)))) if nt else 0
    merged['wall'] = time.time() - t0
    merged['workers'] = workers
    # shortest counter-examples first
    merged['fails'].sort(key=lambda f: (len(json.dumps(f['case'], default=str)), json.dumps(f['case'], default=str)))
    return merged
