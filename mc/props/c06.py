"""C06 — applying repetition modifiers unrolls n back-to-back copies, once."""
from collections import Counter

from mc import world
from mc.engine import Family, Res
from mc.interp import bump_registry_counts, registry_counts, build, count_events, leaf_kinds, class_name, footprint, rep_count
from mc.ref.schedule import chans_of, canonical_state
from mc.ref.unroll import model_build, model_rows, impl_rows, Sched
from mc.spaces import NestedSpace1, NestedSpace2, TwoLevelSpace, N1_BODIES, N1_BODIES_EXTRA

PROP = 'C06'
LEVEL = 'model_checking'
ASSUMPTIONS = [
    'bounded: program spaces under coverage.bounds (blocks of 1-2 operations, two nesting levels, counts <= 3, fixed and registry-provided)',
    'reference model mc/ref/unroll.py; its schedule is used only for programs on which it agrees with the implementation as built (counter model-inapplicable otherwise)',
    'the n-fold concatenation clause is asserted for library-built circuits only (family library-concatenation), as the statement does',
]
EPS = 1e-9


def has_explicit(prog):
    for e in prog:
        if e[0] == 'op' and e[3] is not None:
            return True
        if e[0] == 'sub' and has_explicit(e[2]):
            return True
    return False


def has_nested_rep(body):
    for e in body:
        if e[0] == 'sub' and (rep_count(e[1]) > 1 or has_nested_rep(e[2])):
            return True
    return False


class UnrollFamily(Family):
    def __init__(self, space, cfgname='G', top_reps=(1,), bump=False):
        self.space, self.cfgname, self.top_reps, self.bump = space, cfgname, top_reps, bump
        self.name = 'unroll/%s%d/%s%s' % (space.name, space.max_len, cfgname, '/count-set-after-build' if bump else '')
        self.rule = ('all programs of space %s up to length %d (top-level count in %r), unrolled with apply_modifiers() under configuration %s; '
                     'non-trivial = some block carries a count > 1' % (space.name, space.max_len, list(top_reps), cfgname))

    def shards(self, tier):
        return [(tr, sh) for tr in self.top_reps for sh in self.space.shards()]

    def cases(self, tier, shard):
        tr, sh = shard
        for p in self.space.cases(sh):
            yield (tr, p)

    def describe(self, tier):
        d = self.space.describe()
        d['top_reps'] = list(self.top_reps)
        return d

    def run(self, case):
        top_rep, prog = case
        res = Res()
        cfg = world.cfg_by_name(self.cfgname)
        with world.override(cfg):
            self._run(prog, top_rep, cfg, res)
        res.validated = 1
        return res

    def _run(self, prog, top_rep, cfg, res):
        b = build(prog, rep=top_rep)
        c = b.circ
        if self.bump and b.registries is not None:
            # the registry entries are raised after the circuit (with all its nested copies) has been built: the counts that
            # matter are the ones in force when the modifiers are applied
            for k in sorted(registry_counts(prog) | ({int(top_rep[1])} if isinstance(top_rep, (tuple, list)) else set()), reverse=True):
                b.registries.set_registry_at('n%d' % k, k + 1)
            prog = bump_registry_counts(prog)
            if isinstance(top_rep, (tuple, list)):
                top_rep = ('reg', int(top_rep[1]) + 1)
        model = model_build(prog, cfg, top_rep)
        sched = Sched(cfg)
        before_ops = c.operations
        applicable = impl_rows(before_ops) == model_rows(model, sched)
        if not applicable:
            res.extra = {'model-inapplicable': 1}
        links_before = {id(o): (o.relation_link.relation_type, o.relation_link.reference_node) for o in before_ops}
        reps_before = [x.nr_of_repetitions for x in c.composite_operations]
        t_block = {}
        for i, e in enumerate(prog):
            if e[0] == 'sub':
                t_block[i] = b.ent[i].duration
        world.clear_memo()
        un = c.apply_modifiers()
        world.clear_memo()
        uops = un.operations
        res.transitions = count_events(prog) + 2
        # (a) multiplicities
        want = Counter((class_name(k), tuple(footprint(k, q))) for k, q in leaf_kinds(prog)) if top_rep == 1 else None
        if want is None:
            want = Counter()
            for k, q in leaf_kinds(prog):
                want[(class_name(k), tuple(footprint(k, q)))] += rep_count(top_rep)
        got = Counter((type(o).__name__, chans_of(o)) for o in uops)
        if got != want:
            res.fail('C06-count', 'program %r (top count %r): unrolled multiplicities %r, expected content x product of enclosing counts %r' % (
                prog, top_rep, dict(got), dict(want)))
        # (b) counts reset
        reps = [un.circuit_structure.nr_of_repetitions] + [x.nr_of_repetitions for x in un.composite_operations]
        if any(r != 1 for r in reps):
            res.fail('C06-not-reset', 'program %r: repetition counts after apply_modifiers: %r' % (prog, reps))
        # (c) operations outside repeated blocks are untouched
        if rep_count(top_rep) == 1:
            upos = {id(o): i for i, o in enumerate(uops)}
            for i, e in enumerate(prog):
                if e[0] == 'op':
                    o = b.ent[i]
                    if id(o) not in upos:
                        res.fail('C06-untouched-lost', 'program %r: entry %d is no longer listed after unrolling' % (prog, i))
                        continue
                    lt, lr = links_before[id(o)]
                    ref = o.relation_link.reference_node
                    if o.relation_link.relation_type != lt or ref is not lr:
                        res.fail('C06-untouched-link', 'program %r: entry %d changed its relation by unrolling' % (prog, i))
        # (d) schedule of the copies
        if applicable:
            model.unroll(sched)
            mrows = model_rows(model, sched)
            irows = impl_rows(uops)
            if sorted(mrows) != sorted(irows):
                res.fail('C06-schedule', 'program %r (top count %r): unrolled schedule differs from n back-to-back copies: model %r, implementation %r' % (
                    prog, top_rep, mrows, irows))
            else:
                # "for all duration assignments": the unrolled circuit is re-timed under two more configurations (each copy still
                # follows whichever relation leaf ends latest *then*)
                for other in ('H', 'D', 'G'):
                    if other == self.cfgname:
                        continue
                    ocfg = world.cfg_by_name(other)
                    with world.override(ocfg):
                        world.clear_memo()
                        osched = Sched(ocfg)
                        m2, i2 = model_rows(model, osched), impl_rows(un.operations)
                    if sorted(m2) != sorted(i2):
                        res.fail('C06-schedule-reconfigured', 'program %r (top count %r) unrolled under %s, re-timed under %s: model %r, implementation %r' % (
                            prog, top_rep, self.cfgname, other, m2, i2))
                        break
                world.clear_memo()
            # (g) a block of duration T whose last-ending operation is a relation leaf occupies n*T
            if rep_count(top_rep) == 1:
                for i, e in enumerate(prog):
                    if e[0] == 'sub' and not has_nested_rep(e[2]):
                        n = rep_count(e[1])
                        body = model_build(e[2], cfg)
                        s2 = Sched(cfg)
                        ends = [(s2.end(x), x) for x in body.bfs()]
                        if not ends:
                            continue
                        last = max(t for t, _ in ends)
                        leaf_is_last = any(abs(t - last) < EPS and not x.children for t, x in ends)
                        starts_first = min(s2.start(x) for x in body.leaves()) >= -EPS
                        if leaf_is_last and starts_first:
                            occ = b.ent[i].duration
                            if abs(occ - n * t_block[i]) > EPS:
                                res.fail('C06-nT', 'program %r: block %d of duration %r with count %d occupies %r' % (prog, i, t_block[i], n, occ))
        # (f) idempotence
        rows1 = impl_rows(uops)
        world.clear_memo()
        un2 = un.apply_modifiers()
        world.clear_memo()
        uops2 = un2.operations
        if len(uops2) != len(uops) or any(x is not y for x, y in zip(uops, uops2)):
            res.fail('C06-idempotent-listing', 'program %r: applying modifiers again changes the listing (%d -> %d operations)' % (prog, len(uops), len(uops2)))
        elif impl_rows(uops2) != rows1:
            res.fail('C06-idempotent-schedule', 'program %r: applying modifiers again changes the schedule' % (prog,))
        res.outcome = tuple(rows1)
        res.states = [canonical_state(un)]
        res.trivial = all(r == 1 for r in reps_before) and rep_count(top_rep) == 1


def expected_unrolled(comp):
    """n-fold concatenation: the listing of a (sub-)circuit with every block replaced, in place, by count copies of its own expected listing."""
    from mc.ref.stim_tr import direct_blocks
    ops = comp.decomposed_operations()
    first = {}
    for b in direct_blocks(comp):
        inner = b.decomposed_operations()
        if inner:
            first[id(inner[0])] = (b, len(inner))
    out, i = [], 0
    while i < len(ops):
        o = ops[i]
        if id(o) in first:
            b, n = first[id(o)]
            out.extend(expected_unrolled(b) * b.nr_of_repetitions)
            i += n
        else:
            out.append((type(o).__name__, chans_of(o), getattr(o, 'acquisition_tag', None)))
            i += 1
    return out


class LibraryUnroll(Family):
    name = 'library-concatenation'
    rule = ('repetition-code constructors (full and simplified; distance 2..4, cycles 0..7, refocusing on/off): the unrolled listing is exactly the n-fold concatenation of the '
            'blocks\' listings, counts are reset and a second apply changes nothing; non-trivial = some block has a count >= 2')

    def shards(self, tier):
        return [(d, s) for d in (2, 3, 4) for s in (0, 1)]

    def cases(self, tier, shard):
        d, simplified = shard
        for cycles in range(0, 8):
            for refocus in (True, False):
                yield (d, cycles, refocus, simplified)

    def run(self, case):
        from qce_circuit.language import InitialStateContainer, InitialStateEnum
        from qce_circuit.library.repetition_code.circuit_components import RepetitionCodeDescription
        from qce_circuit.library.repetition_code.circuit_constructors import construct_repetition_code_circuit, construct_repetition_code_circuit_simplified
        d, cycles, refocus, simplified = case
        res = Res()
        init = InitialStateContainer.from_ordered_list([InitialStateEnum.ZERO] * d)
        desc = RepetitionCodeDescription.from_chain(2 * d - 1, qubit_refocusing=refocus)
        ctor = construct_repetition_code_circuit_simplified if simplified else construct_repetition_code_circuit
        c = ctor(qec_cycles=cycles, description=desc, initial_state=init)
        want = expected_unrolled(c.circuit_structure)
        reps = [x.nr_of_repetitions for x in c.composite_operations]
        un = c.apply_modifiers()
        got = [(type(o).__name__, chans_of(o), getattr(o, 'acquisition_tag', None)) for o in un.operations]
        if got != want:
            k = next((i for i, (a, b) in enumerate(zip(got, want)) if a != b), min(len(got), len(want)))
            res.fail('C06-library-concatenation', 'constructor input %r: unrolled listing is not the n-fold concatenation: #%d %r vs %r (lengths %d / %d)' % (
                case, k, got[k] if k < len(got) else None, want[k] if k < len(want) else None, len(got), len(want)))
        if any(x.nr_of_repetitions != 1 for x in un.composite_operations):
            res.fail('C06-not-reset', 'constructor input %r: counts not reset' % (case,))
        ops1 = un.operations
        ops2 = un.apply_modifiers().operations
        if len(ops1) != len(ops2) or any(a is not b for a, b in zip(ops1, ops2)):
            res.fail('C06-idempotent-listing', 'constructor input %r: applying modifiers again changes the listing' % (case,))
        res.outcome = (case, len(got))
        res.states = [tuple(got)]
        res.transitions = 3
        res.validated = 1
        res.trivial = all(r < 2 for r in reps)
        return res


def empty_blocks_family():
    """Blocks without content (alone, nested in a repeated block, next to operations) with counts 1 and 2."""
    sp = NestedSpace1(2, reps=(1, 2), bodies=[(), (('sub', 2, ()),), (('op', 'X', 0, None),)])
    sp.name = 'N1E'
    return UnrollFamily(sp, 'G', top_reps=(1, 2))


def families(tier):
    if tier == 'quick':
        return [empty_blocks_family(), UnrollFamily(NestedSpace2(2, reps=(('reg', 2), ('reg', 3)), atoms=[('X', 0), ('M', 0), ('R', 1)]), 'H', top_reps=(1, 2)),
                UnrollFamily(NestedSpace2(2, reps=(('reg', 2),), atoms=[('X', 0), ('M', 0), ('R', 1)]), 'H', top_reps=(1, 2, ('reg', 2)), bump=True),
                UnrollFamily(NestedSpace2(2)), UnrollFamily(NestedSpace1(3)),
                UnrollFamily(NestedSpace1(2, reps=(1, 2, 3), bodies=N1_BODIES + N1_BODIES_EXTRA), 'H', top_reps=(1, 2, ('reg', 3))),
                UnrollFamily(TwoLevelSpace(1), 'D', top_reps=(1, 2)), LibraryUnroll()]
    return [empty_blocks_family(),
            UnrollFamily(NestedSpace2(2)), UnrollFamily(NestedSpace2(2, reps=(('reg', 2), ('reg', 3)), atoms=[('X', 0), ('R', 1), ('M', 0), ('Z', 0), ('B', 0)]), 'H'),
            UnrollFamily(NestedSpace1(2, reps=(1, 2, 3), bodies=N1_BODIES + N1_BODIES_EXTRA), 'G', top_reps=(1, 2, ('reg', 3))),
            UnrollFamily(NestedSpace1(3, reps=(2,), bodies=N1_BODIES + N1_BODIES_EXTRA[:5]), 'H', top_reps=(1, 2)),
            UnrollFamily(NestedSpace1(3), 'D'),
            UnrollFamily(TwoLevelSpace(2, reps=(1, 2)), 'D', top_reps=(1, 2, ('reg', 3))), LibraryUnroll()]


def signature(f):
    return f['code']
