"""C11 — flattening keeps the operations, and for library circuits the program."""
from collections import Counter

from qce_circuit.addon_stim import to_stim
from mc import world, triage
from mc.engine import Family, Res
from mc.interp import build, count_events
from mc.ref.schedule import chans_of, canonical_state
from mc.ref.stim_tr import expand
from mc.spaces import NestedSpace1, NestedSpace2, TwoLevelSpace, N1_BODIES, N1_BODIES_EXTRA

PROP = 'C11'
LEVEL = 'model_checking'
ASSUMPTIONS = [
    'bounded: program spaces and constructor inputs under coverage.bounds',
    'order / schedule / index / program identity is asserted for modifier-applied library circuits only, as the statement does',
]
EPS = 1e-9


def leaf_key(o):
    return (type(o).__name__, chans_of(o), round(o.duration, 9), getattr(o, 'acquisition_tag', None))


def full_rows(c):
    ops = c.operations
    return [(leaf_key(o), round(o.start_time, 9), round(o.end_time, 9),
             (o.acquisition_index, o.circuit_level_acquisition_index) if hasattr(o, 'acquisition_index') else None) for o in ops]


class FlattenFamily(Family):
    def __init__(self, space, cfgname='G', unroll_first=(False, True)):
        self.space, self.cfgname, self.unroll_first = space, cfgname, unroll_first
        self.name = 'flatten/%s%d/%s' % (space.name, space.max_len, cfgname)
        self.rule = ('all programs of space %s up to length %d, flattened as built and after apply_modifiers(); non-trivial = the program contains a block' % (space.name, space.max_len))

    def shards(self, tier):
        return self.space.shards()

    def cases(self, tier, shard):
        return self.space.cases(shard)

    def describe(self, tier):
        return self.space.describe()

    def run(self, prog):
        res = Res()
        states = []
        outcome = []
        with world.override(world.cfg_by_name(self.cfgname)):
            for unroll in self.unroll_first:
                world.clear_memo()
                c = build(prog).circ
                if unroll:
                    c = c.apply_modifiers()
                label = 'unrolled' if unroll else 'as built'
                before = Counter(leaf_key(o) for o in c.operations)
                f = c.flatten()
                ops1 = f.operations
                after = Counter(leaf_key(o) for o in ops1)
                if before != after:
                    res.fail('C11-multiset', '%s %r: flatten changed the operations: lost %r gained %r' % (label, prog, dict(before - after), dict(after - before)))
                if len(f.composite_operations) != 0:
                    res.fail('C11-nesting-left', '%s %r: %d sub-circuits remain after flatten' % (label, prog, len(f.composite_operations)))
                rows1 = full_rows(f)
                f2 = f.flatten()
                ops2 = f2.operations
                if len(ops2) != len(ops1) or any(x is not y for x, y in zip(ops1, ops2)) or full_rows(f2) != rows1:
                    res.fail('C11-idempotent', '%s %r: flattening again changes listing or schedule' % (label, prog))
                states.append(canonical_state(f))
                outcome.append(tuple(rows1))
        res.outcome = tuple(outcome)
        res.states = states
        res.transitions = len(self.unroll_first) * (count_events(prog) + 3)
        res.validated = len(self.unroll_first)
        res.trivial = not any(e[0] == 'sub' for e in prog)
        return res


class LibraryFlatten(Family):
    name = 'library'
    rule = ('repetition-code constructors (full: distance 2..3(4), cycles 0..4(6), refocusing on/off, zero/alternating states; simplified: same distances and cycles) and multi-round constructor (rounds lists over {0..3}), '
            'modifiers applied: listing order, schedule, acquisition indices and Stim program identical before/after flatten(); non-trivial = at least one QEC cycle')

    def __init__(self, tier):
        self.tier = tier

    def shards(self, tier):
        return list(range(8))

    def inputs(self, tier):
        ds = (2, 3) if tier == 'quick' else (2, 3, 4)
        cyc = range(0, 5) if tier == 'quick' else range(0, 7)
        out = []
        for d in ds:
            for n in cyc:
                for refocus in (True, False):
                    for pat in (0, 1):
                        out.append(('single', d, n, refocus, pat))
                out.append(('simplified', d, n, True, 0))
        # one long experiment: the flattened circuit is a single deep relation graph (hundreds of relation steps)
        out.append(('single', 2, 30 if tier == 'quick' else 50, True, 0))     # (60 cycles exceed the interpreter's recursion limit, DESIGN 9)
        lists = [(0,), (1,), (2,), (0, 1), (2, 1), (3, 0, 1), (4, 3)] if tier == 'quick' else [(0,), (1,), (2,), (3,), (0, 1), (1, 0), (2, 1), (3, 0, 1), (0, 2, 4), (4, 1)]
        for d in (2, 3) if tier != 'quick' else (2,):
            for l in lists:
                out.append(('multi', d, l, True, 0))
        return out

    def cases(self, tier, shard):
        for i, x in enumerate(self.inputs(tier)):
            if i % 8 == shard:
                yield x

    def run(self, case):
        from qce_circuit.language import InitialStateContainer, InitialStateEnum
        from qce_circuit.library.repetition_code.circuit_components import RepetitionCodeDescription
        from qce_circuit.library.repetition_code.circuit_constructors import construct_repetition_code_circuit, construct_repetition_code_multi_round_circuit, construct_repetition_code_circuit_simplified
        kind, d, n, refocus, pat = case
        res = Res()
        states = [InitialStateEnum.ONE if (pat and i % 2) else InitialStateEnum.ZERO for i in range(d)]
        init = InitialStateContainer.from_ordered_list(states)
        desc = RepetitionCodeDescription.from_initial_state(init, qubit_refocusing=refocus)
        if kind == 'single':
            c = construct_repetition_code_circuit(qec_cycles=n, description=desc, initial_state=init)
        elif kind == 'simplified':
            c = construct_repetition_code_circuit_simplified(qec_cycles=n, description=desc, initial_state=init)
        else:
            c = construct_repetition_code_multi_round_circuit(qec_cycles=list(n), description=desc, initial_state=init)
            # the multi-round constructor relies on apply_modifiers() + flatten() per round: its program must be the
            # concatenation of the single-round programs (each modifier-applied), a TICK after each, then the calibration circuit
            from qce_circuit.library.state_calibration.circuit_constructors import construct_calibration_circuit
            from qce_circuit.library.state_calibration.circuit_components import CalibrationDescription, CalibrateType
            want = []
            for r in n:
                want += expand(to_stim(construct_repetition_code_circuit(qec_cycles=r, description=desc, initial_state=init).apply_modifiers())) + [('TICK', (), ())]
            cmap = desc.circuit_channel_map
            want += expand(to_stim(construct_calibration_circuit(CalibrationDescription(
                _qubit_ids=desc.calibration_qubit_ids, _qubit_index_map={v: k for k, v in cmap.items()}, _type=CalibrateType.QUTRIT))))
            got = expand(to_stim(c))
            if got != want:
                k = next((i for i, (a, b) in enumerate(zip(got, want)) if a != b), min(len(got), len(want)))
                res.fail('C11-multi-round-program', 'constructor input %r: the multi-round program is not the concatenation of its rounds: #%d %r vs %r (lengths %d / %d)' % (
                    case, k, got[k] if k < len(got) else None, want[k] if k < len(want) else None, len(got), len(want)))
        world.clear_memo()
        c = c.apply_modifiers()
        rows0 = full_rows(c)
        stim0 = expand(to_stim(c))
        nq = 2 * d - 1
        idx0 = [tuple(int(x) for x in c.get_acquisition_indices(q)) for q in range(nq)]
        f = c.flatten()
        world.clear_memo()
        rows1 = full_rows(f)
        stim1 = expand(to_stim(f))
        idx1 = [tuple(int(x) for x in f.get_acquisition_indices(q)) for q in range(nq)]
        is_shift = lambda r: r[0][0] == 'CoordinateShiftOperation'
        if rows0 != rows1 or stim0 != stim1:
            shift_only = (rows0 == rows1 or triage.shift_only_difference(rows0, rows1, is_shift)) and \
                (stim0 == stim1 or triage.shift_only_difference(stim0, stim1, lambda g: g[0] == 'SHIFT_COORDS')) and \
                expand(to_stim(c).flattened()) == expand(to_stim(f).flattened())
            if shift_only:
                # listed finding F11: every operation keeps its schedule and index, only the listing position of the zero-length
                # coordinate-shift annotation moves (still between the same detectors)
                res.fail('C11-' + triage.KF_SHIFT_POSITION, 'constructor input %r: a CoordinateShiftOperation is listed at a different position after flatten' % (case,))
            elif [r[0] for r in rows0] != [r[0] for r in rows1]:
                res.fail('C11-library-order', 'constructor input %r: listing order changes by flatten' % (case,))
            elif [r[:3] for r in rows0] != [r[:3] for r in rows1]:
                k = next(i for i, (a, b) in enumerate(zip(rows0, rows1)) if a[:3] != b[:3])
                res.fail('C11-library-schedule', 'constructor input %r: schedule changes by flatten: #%d %r -> %r' % (case, k, rows0[k], rows1[k]))
            elif [r[3] for r in rows0] != [r[3] for r in rows1]:
                res.fail('C11-library-acq', 'constructor input %r: acquisition indices change by flatten' % (case,))
            else:
                res.fail('C11-library-stim', 'constructor input %r: exported Stim program changes by flatten' % (case,))
        if idx0 != idx1:
            res.fail('C11-library-acq', 'constructor input %r: get_acquisition_indices changes by flatten' % (case,))
        if len(f.composite_operations) != 0:
            res.fail('C11-nesting-left', 'constructor input %r: sub-circuits remain' % (case,))
        res.outcome = (tuple(rows1), tuple(idx1))
        res.states = [res.outcome]
        res.transitions = 3
        res.validated = 1
        res.trivial = (n == 0) if kind in ('single', 'simplified') else False
        return res


def families(tier):
    if tier == 'quick':
        return [FlattenFamily(NestedSpace2(2), unroll_first=(True,)), FlattenFamily(NestedSpace2(1), 'D', unroll_first=(False,)),
                FlattenFamily(NestedSpace1(3), 'H', unroll_first=(False,)), FlattenFamily(TwoLevelSpace(1), 'D'), LibraryFlatten(tier)]
    return [FlattenFamily(NestedSpace2(2)), FlattenFamily(NestedSpace1(3, reps=(1, 2, 3), bodies=N1_BODIES + N1_BODIES_EXTRA), 'H'),
            FlattenFamily(TwoLevelSpace(2), 'D'), LibraryFlatten(tier)]


def signature(f):
    return f['code']
