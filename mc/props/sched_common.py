"""Shared pass for C01 (timing), C02 (listing) and C04 (span): program enumeration vs the schedule model."""
from mc import world
from mc.engine import Family, Res
from mc.interp import build, count_events, make_op, RT, leaf_kinds, class_name, footprint
from mc.ref.schedule import Judge, canonical_state, structure_sig, chans_of
from mc.ref.unroll import model_build, model_rows, impl_rows, Sched
from mc.spaces import FlatSpace, NestedSpace1, NestedSpace2, SparseSpace, N1_BODIES, N1_BODIES_EXTRA


class SchedFamily(Family):
    def __init__(self, space, cfgname, want, unroll):
        self.space, self.cfgname, self.want, self.unroll = space, cfgname, tuple(want), unroll
        self.name = '%s%d/%s' % (space.name, space.max_len, cfgname)
        self.rule = ('all programs of space %s up to length %d under duration configuration %s, each judged as built%s; '
                     'non-trivial = more than one entry (an entry can relate to / collide with another)' % (
                         space.name, space.max_len, cfgname, ' and after apply_modifiers()' if unroll else ''))

    def shards(self, tier):
        return self.space.shards()

    def cases(self, tier, shard):
        return self.space.cases(shard)

    def describe(self, tier):
        d = self.space.describe()
        d['cfg'] = {k.name: v for k, v in world.cfg_by_name(self.cfgname).items()}
        d['variants'] = ['as built'] + (['after apply_modifiers'] if self.unroll else [])
        return d

    attribute_joined_end_blocks = False

    def run(self, prog):
        res = self.judge_program(prog)
        if self.attribute_joined_end_blocks and res.fails:
            # Attribution to the listed finding "a block placed JOINED_END" (DESIGN 6.4) by a counterfactual on the failing
            # program itself: the same program with the blocks' own relations turned into JOINED_START must be judged clean.
            variant = tuple((e[:4] + (('JS', e[4][1]),)) if e[0] == 'sub' and len(e) > 4 and e[4] is not None and e[4][0] == 'JE' else e for e in prog)
            world.clear_memo()
            if variant != tuple(prog) and not self.judge_program(variant).fails:
                res.fails = [(code + '@joined-end-block', detail) for code, detail in res.fails]
            world.clear_memo()
        return res

    def judge_program(self, prog):
        res = Res()
        cfg = world.cfg_by_name(self.cfgname)
        with world.override(cfg):
            b = build(prog)
            judge = Judge(res, cfg, self.want)
            circ = b.circ
            ops = circ.operations
            ops_again = circ.operations
            if 'C02' in self.want:
                judge.check_listing(b, ops, ops_again, 'as built')
                if circ.get_last_entry() is not b.ent[-1]:
                    res.fail('C02-last-entry', 'get_last_entry is not the last value returned by add for %r' % (prog,))
                # the same program built while listing after every single add must list the same
                world.clear_memo()
                seen_lengths = []
                b_inc = build(prog, observe=lambda cc: seen_lengths.append(len(cc.operations)))
                inc_ops = b_inc.circ.operations
                if structure_sig(inc_ops, b_inc.circ.composite_operations) != structure_sig(ops, circ.composite_operations):
                    res.fail('C02-listing-history', 'program %r: listing after every add gives a different final listing (%d vs %d operations)' % (prog, len(inc_ops), len(ops)))
                else:
                    judge.check_listing(b_inc, inc_ops, b_inc.circ.operations, 'built with intermediate listings')
                # variants of the same program: relations given through shared link objects; blocks handed over as structures
                has_rel = any(e[0] == 'op' and e[3] is not None for e in prog)
                has_blk = any(e[0] == 'sub' for e in prog)
                ref_sig = structure_sig(ops, circ.composite_operations)
                for label, kw in ((('shared relation objects', {'share_links': True}),) if has_rel else ()) + \
                        ((('blocks added as structures', {'via_structure': True}),) if has_blk else ()):
                    bv = build(prog, **kw)
                    vops = bv.circ.operations
                    if structure_sig(vops, bv.circ.composite_operations) != ref_sig:
                        res.fail('C02-variant-listing', 'program %r built with %s lists differently (%d vs %d operations)' % (prog, label, len(vops), len(ops)))
                    else:
                        judge.check_listing(bv, vops, bv.circ.operations, label)
                    if kw.get('via_structure'):
                        # "exactly the operations that were added": operations given to the source block afterwards were never added here
                        for sb in bv.subs:
                            if sb is not None:
                                sb.circ.circuit_structure.add(make_op('R', 0, None, sb.circ))
                        world.clear_memo()
                        if structure_sig(bv.circ.operations, bv.circ.composite_operations) != ref_sig:
                            res.fail('C02-listing-has-unadded', 'program %r (%s): after the source blocks received one more operation each, the circuit lists %d operations instead of the %d that were added to it' % (prog, label, len(bv.circ.operations), len(ops)))
                    world.clear_memo()
            ok = True
            if 'C01' in self.want:
                ok = judge.validate_tree(b)
                judge.check_times(circ, ops, 'as built')
            if 'C04' in self.want:
                judge.check_span(circ, 'as built')
            if ('C01' in self.want or 'C04' in self.want) and any(e[0] == 'sub' for e in prog):
                self.flatten_keeps_relations(prog, res)
            states = [canonical_state(circ)]
            outcome = [tuple((round(o.start_time, 9), round(o.end_time, 9)) for o in ops), round(circ.duration, 9)]
            n_events = count_events(prog)
            if self.unroll:
                model = sched = None
                if 'C01' in self.want:
                    # the model schedule is used only where it agrees with the implementation as built (tie-breaks are not prescribed)
                    model = model_build(prog, cfg)
                    sched = Sched(cfg)
                    if impl_rows(ops) != model_rows(model, sched):
                        model = None
                        res.extra = dict(res.extra or {}, **{'model-inapplicable': 1})
                world.clear_memo()  # a fresh reading of the unrolled circuit (history effects belong to C03)
                un = circ.apply_modifiers()
                world.clear_memo()
                uops = un.operations
                uops_again = un.operations
                if 'C01' in self.want:
                    judge.check_times(un, uops, 'unrolled')
                    if model is not None:
                        model.unroll(sched)
                        mrows, irows = model_rows(model, sched), impl_rows(uops)
                        if sorted(mrows) != sorted(irows):
                            res.fail('C01-unrolled-schedule', 'program %r: after unrolling, copies do not start when the latest-ending relation leaf before them ends: model %r, reported %r' % (prog, mrows, irows))
                if 'C02' in self.want:
                    if len(uops) != len(uops_again) or any(x is not y for x, y in zip(uops, uops_again)):
                        res.fail('C02-unstable', 'unrolled: listing twice gives different sequences')
                    if len(set(map(id, uops))) != len(uops):
                        res.fail('C02-duplicate', 'unrolled: an operation is listed twice')
                    judge.check_causal(un, uops, 'unrolled')
                    # nothing lost, nothing duplicated after unrolling either: every added leaf is listed once per repetition of its blocks
                    want_ms = sorted((class_name(k) if k[0] != '@' else k[1:].partition(':')[0], tuple(footprint(k, q))) for k, q in leaf_kinds(prog))
                    got_ms = sorted((type(o).__name__, chans_of(o)) for o in uops)
                    if want_ms != got_ms:
                        res.fail('C02-unrolled-content', 'program %r: after unrolling %d operations are listed, the program has %d (counting repetitions): %s' % (
                            prog, len(got_ms), len(want_ms), first_difference(want_ms, got_ms)))
                if 'C04' in self.want:
                    judge.check_span(un, 'unrolled')
                states.append(canonical_state(un))
                outcome.append(tuple((round(o.start_time, 9), round(o.end_time, 9)) for o in uops))
                n_events += 1
        res.outcome = tuple(outcome)
        res.states = states
        res.transitions = n_events
        res.validated = 1
        res.trivial = len(prog) < 2
        return res


def first_difference(a, b):
    from collections import Counter
    ca, cb = Counter(a), Counter(b)
    return 'missing %r, unexpected %r' % (sorted((ca - cb).items())[:3], sorted((cb - ca).items())[:3])


def _flatten_keeps_relations(self, prog, res):
    """C01 through flatten(): an operation that was placed relative to another operation or to a block (explicitly, or by
    the implicit rule) is still where that relation says - measured against the referenced object as it reports itself
    after flattening (a block handle keeps reporting the span of what it contains)."""
    bf = build(prog)
    bf.circ.operations
    # Programs in which some block has content that starts before the block itself (an operation joined to the end of a shorter
    # one) are set aside as a whole: such a block reports an end beyond its content (finding F24), and everything chained
    # behind it inherits that.  The statement of C04 makes the same exception.
    for comp in bf.circ.composite_operations:
        inner = comp.decomposed_operations()
        if inner and min(x.start_time for x in inner) < comp.start_time - 1e-9:
            res.extra = dict(getattr(res, 'extra', None) or {}, **{'flatten-clause-set-aside': 1})
            return
    given = []
    for i, e in enumerate(prog):
        if e[0] == 'op':
            link = bf.ent[i].relation_link
            ref = link.reference_node
            # (a block without content leaves nothing behind that a flattened circuit could refer to)
            if ref is not None and ref.decomposed_operations():
                # (a block whose content starts before the block itself - an operation joined to the end of a shorter one - reports
                # an end that is not the end of its content; the statement of C04 sets that case aside, so does this clause)
                if hasattr(ref, 'get_sub_composite_operations') and min(x.start_time for x in ref.decomposed_operations()) < ref.start_time - 1e-9:
                    continue
                given.append((i, ref, link.relation_type))
    bf.circ.flatten()
    world.clear_memo()
    for i, ref, rt in given:
        o = bf.ent[i]
        if rt == RT['FB']:
            want, got, what = ref.end_time, o.start_time, 'start'
        elif rt == RT['JS']:
            want, got, what = ref.start_time, o.start_time, 'start'
        else:
            want, got, what = ref.end_time, o.end_time, 'end'
        if abs(want - got) > 1e-9 and 'C04' in self.want and 'C01' not in self.want:
            # C04: what is scheduled FOLLOWED_BY a block starts only after all of the block's operations have ended
            inner = ref.decomposed_operations() if rt == RT['FB'] and hasattr(ref, 'get_sub_composite_operations') else []
            if inner and min(x.start_time for x in inner) >= ref.start_time - 1e-9 and got < max(x.end_time for x in inner) - 1e-9:
                res.fail('C04-follower-flatten', 'program %r: after flatten() entry %d, scheduled FOLLOWED_BY a block, starts at %r although the operations of that block end at %r' % (
                    prog, i, got, max(x.end_time for x in inner)))
                break
        elif abs(want - got) > 1e-9:
            res.fail('C01-flatten-relation', 'program %r: after flatten() entry %d (%s %s) has %s %r, its reference reports %r' % (
                prog, i, rt.name, type(ref).__name__, what, got, want))
            break


SchedFamily.flatten_keeps_relations = _flatten_keeps_relations


def families_for(want, tier):
    fams = []
    if tier == 'quick':
        for cfgname in ('G', 'D'):
            fams.append(SchedFamily(FlatSpace(3), cfgname, want, unroll=False))
        fams.append(SchedFamily(NestedSpace1(3), 'G', want, unroll=True))
        fams.append(SchedFamily(NestedSpace1(2, reps=(1, 2, 3), bodies=N1_BODIES + N1_BODIES_EXTRA), 'H', want, unroll=True))
        xs = NestedSpace1(2, reps=(1, 2), bodies=N1_BODIES_EXTRA)     # the extra bodies under the other configuration as well (which operation ends last depends on it)
        xs.name = 'N1X'
        fams.append(SchedFamily(xs, 'G', want, unroll=True))
        fams.append(SchedFamily(NestedSpace2(2), 'G', want, unroll=False))
        fams.append(SchedFamily(FlatSpace(2), 'Z', want, unroll=False))
        fams.append(SchedFamily(NestedSpace1(2), 'Z', want, unroll=True))
        # blocks that are not executed at all (count 0, fixed or provided by a registry) next to registry-provided counts
        zs = NestedSpace1(2, reps=(0, ('reg', 0), ('reg', 2)), bodies=N1_BODIES[:3])
        zs.name = 'N1Z'
        if 'C01' not in want:     # (the unrolling model of C01 describes counts >= 1)
            fams.append(SchedFamily(zs, 'G', want, unroll=True))
        if 'C02' not in want:
            # blocks with a FOLLOWED_BY / JOINED_START relation of their own
            fams.append(SchedFamily(NestedSpace1(2, reps=(1, 2), bodies=N1_BODIES, block_rels=('FB', 'JS')), 'G', want, unroll=False))
            fams.append(SchedFamily(NestedSpace1(3, reps=(1,), bodies=N1_BODIES[1:4], atoms=[('X', 0), ('R', 1)], block_rels=('FB', 'JS')), 'H', want, unroll=False))
            # blocks placed JOINED_END an earlier entry (known finding F23: their contents leave the block's span once listed)
            je = NestedSpace1(2, reps=(1, 2), bodies=N1_BODIES, block_rels=('JE',))
            je.name = 'N1J'
            fam = SchedFamily(je, 'G', want, unroll=False)
            fam.attribute_joined_end_blocks = True
            fams.append(fam)
        if 'C01' in want:
            # deviation-bounded: up to 6 entries, at most 2 explicit relations (deep trees, leaves at different depths)
            fams.append(SchedFamily(SparseSpace(6, 2, min_len=5, atoms=[('X', 0), ('X', 1), ('P', 0)], last_atoms=[('R', 0), ('P', 0), ('X', 0)]), 'G', want, unroll=False))
    else:
        fams.append(SchedFamily(SparseSpace(6, 2, min_len=4), 'G', want, unroll=False))
        fams.append(SchedFamily(FlatSpace(3), 'Z', want, unroll=False))
        fams.append(SchedFamily(NestedSpace1(3), 'Z', want, unroll=True))
        # F(4) has 1.4e7 programs: C01 runs it under two configurations, C02/C04 under the generic one
        fams.append(SchedFamily(NestedSpace2(2), 'G', want, unroll=True))
        fams.append(SchedFamily(FlatSpace(4), 'G', want, unroll=False))
        if 'C01' in want:
            fams.append(SchedFamily(FlatSpace(4), 'D', want, unroll=False))
        else:
            fams.append(SchedFamily(FlatSpace(3), 'D', want, unroll=False))
        fams.append(SchedFamily(FlatSpace(3), 'H', want, unroll=False))
        fams.append(SchedFamily(NestedSpace1(3, reps=(1, 2, 3), bodies=N1_BODIES + N1_BODIES_EXTRA), 'G', want, unroll=True))
        fams.append(SchedFamily(NestedSpace1(3), 'D', want, unroll=True))
    return fams
