"""C01 — see DESIGN.md section 4."""
from mc.props.sched_common import families_for

PROP = 'C01'
LEVEL = 'model_checking'
ASSUMPTIONS = [
    'bounded: only the program spaces and duration configurations listed under coverage.bounds are explored',
    'reference model mc/ref/schedule.py is trusted; it is driven by the same program as the implementation',
    'relations refer to entries of the same circuit; blocks are added through DeclarativeCircuit.add',
]


def families(tier):
    return families_for(('C01',), tier)


def signature(f):
    """Failures attributed to a listed finding (code with '@...') are identified by their code alone, all others by family and code."""
    return f['code'] if '@' in f['code'] else f['family'] + ':' + f['code']
