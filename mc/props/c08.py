"""C08 — Stim export is the in-order image of the circuit."""
from collections import Counter

from qce_circuit import DeclarativeCircuit
from qce_circuit.addon_stim import to_stim
from qce_circuit.addon_stim.circuit_operations import DetectorOperation, LogicalObservableOperation, CoordinateShiftOperation
from qce_circuit.structure import circuit_operations as co
from mc import world, triage
from mc.engine import Family, Res
from mc.interp import build, count_events, make_op, rep_count, bump_registry_counts, registry_counts
from mc.props.c05 import AllClassSpace
from mc.ref.schedule import canonical_state
from mc.ref.stim_tr import translate_block, translate_leaf, expand
from mc.spaces import NestedSpace2, TwoLevelSpace, Space

PROP = 'C08'
LEVEL = 'model_checking'
ASSUMPTIONS = [
    'bounded: program spaces under coverage.bounds; annotation arguments from a small box',
    'reference translator mc/ref/stim_tr.py (documented table, by exact class); the listing it translates is the implementation\'s own (judged by C02)',
    'Stim is trusted to parse and print its own instructions; REPEAT blocks are unrolled by the harness, fused targets are split',
]


def judge(res, prog, c, label):
    want = translate_block(c.circuit_structure)
    got = expand(to_stim(c))
    if want != got:
        k = next((i for i, (a, b) in enumerate(zip(want, got)) if a != b), min(len(want), len(got)))
        res.fail('C08-translation', '%s %r: instruction #%d: expected %r, exported %r (lengths %d / %d)' % (
            label, prog, k, want[k] if k < len(want) else None, got[k] if k < len(got) else None, len(want), len(got)))
    return got


ANNOTATIONS = ('DETECTOR', 'OBSERVABLE_INCLUDE')


def program_instructions(prog, circ=None):
    """What the *program* says must be exported (order aside): every added leaf translated on its own, as often as its
    blocks are repeated.  Independent of the circuit's listing, so an operation that changes kind, qubits or count on its
    way into a block (copies) shows up.  Annotations are left out (their record targets depend on their position)."""
    circ = circ or DeclarativeCircuit()
    out = []
    for e in prog:
        if e[0] == 'op':
            out.extend(i for i in translate_leaf(make_op(e[1], e[2], None, circ, e[4] if len(e) > 4 else '')) if i[0] not in ANNOTATIONS)
        else:
            out.extend(program_instructions(e[2], circ) * rep_count(e[1]))
    return out


class AllClassNestedSpace(Space):
    """AN: one block (count 1 or 2) holding one operation of every class (every field non-default), alone or behind Rx180(0)."""
    name = 'AN'

    def __init__(self):
        super().__init__(1)
        atoms = AllClassSpace(1).atoms
        self._s = []
        for k, q in atoms:
            for r in (1, 2):
                self._s.append(('sub', r, (('op', k, q, None),)))
                self._s.append(('sub', r, (('op', 'X', 0, None), ('op', k, q, None))))

    def steps(self, i):
        return self._s


class ExportFamily(Family):
    def __init__(self, space, tag='', bump=False):
        self.space, self.bump = space, bump
        self.name = 'export/%s%d%s' % (space.name, space.max_len, tag)
        self.rule = ('all programs of space %s up to length %d exported as built and after apply_modifiers(); non-trivial = the export contains at least two instructions' % (space.name, space.max_len))

    def shards(self, tier):
        return self.space.shards()

    def cases(self, tier, shard):
        return self.space.cases(shard)

    def describe(self, tier):
        return self.space.describe()

    def run(self, prog):
        res = Res()
        with world.override(world.CFG_G):
            b = build(prog)
            c = b.circ
            if self.bump and b.registries is not None:
                # registry-provided counts are raised after the circuit was built: the export uses the counts in force now
                for k in sorted(registry_counts(prog), reverse=True):
                    b.registries.set_registry_at('n%d' % k, k + 1)
                prog = bump_registry_counts(prog)
            got = judge(res, prog, c, 'as built')
            un = c.apply_modifiers()
            got2 = judge(res, prog, un, 'unrolled')
            if Counter(got) != Counter(got2):
                res.fail('C08-unroll-multiset', 'program %r: exporting before and after unrolling gives different instruction multisets' % (prog,))
            want_ms = Counter(program_instructions(prog))
            got_ms = Counter(g for g in got2 if g[0] not in ANNOTATIONS)
            if want_ms != got_ms:
                res.fail('C08-program-multiset', 'program %r: the export of the unrolled circuit is not what the added operations translate to: missing %r, unexpected %r' % (
                    prog, sorted((want_ms - got_ms).items())[:3], sorted((got_ms - want_ms).items())[:3]))
            if sum(1 for g in got if g[0] == 'M') != sum(1 for g in got2 if g[0] == 'M'):
                res.fail('C08-unroll-measurements', 'program %r: number of measurements changes by unrolling' % (prog,))
            res.outcome = tuple(got)
            res.states = [canonical_state(un)]
        res.transitions = count_events(prog) + 3
        res.validated = 2
        res.trivial = len(got) < 2
        return res


# annotation box -------------------------------------------------------------------------------
def annotation_cases():
    N = None
    for q in (0, 2):
        for L in (3, 5):
            for m in (N, 0, 3):
                for s in (N, 0, 1):
                    for r in (N, 1, 2):
                        for o in (N, 1):
                            yield ('det', q, L, m, s, r, o)
    for L in (N, 2, 4):
        for m in (N, 0, 2):
            yield ('obs', 1, L, m)
    for sp in (0, 2):
        for t in (0, 1, 3):
            yield ('shift', sp, t)


class AnnotationFamily(Family):
    name = 'annotations'
    rule = ('detector (every None/value pattern of main, secondary, reference offset, secondary offset x two record positions x two qubits), observable and '
            'coordinate-shift operations, each placed after four measurements, alone and inside a block with count 2; non-trivial = the annotation has targets or arguments')

    def shards(self, tier):
        return [None]

    def cases(self, tier, shard):
        for a in annotation_cases():
            for nested in (0, 1):
                yield (a, nested)

    def run(self, case):
        a, nested = case
        res = Res()
        c = DeclarativeCircuit()
        for q in (0, 1, 0, 1):
            c.add(co.DispersiveMeasure(q, acquisition_strategy=c.get_acquisition_strategy()))
        if a[0] == 'det':
            op = DetectorOperation(qubit_index=a[1], last_acquisition_index=a[2], main_target=a[3], secondary_target=a[4], reference_offset=a[5], secondary_offset=a[6])
        elif a[0] == 'obs':
            op = LogicalObservableOperation(qubit_index=a[1], last_acquisition_index=a[2], main_target=a[3])
        else:
            op = CoordinateShiftOperation(qubit_indices=[0, 1], space_shift=a[1], time_shift=a[2])
        if nested:
            sb = DeclarativeCircuit(repetition_strategy=__import__('qce_circuit').FixedRepetitionStrategy(2))
            sb.add(op)
            c.add(sb)
        else:
            c.add(op)
        got = judge(res, case, c, 'as built')
        if nested:
            # the annotation inside a block with count 2 must be exported exactly as the annotation itself, twice
            # (the block is a copy: a copy that loses a field changes which measurements the annotation points at)
            flat = DeclarativeCircuit()
            for q in (0, 1, 0, 1):
                flat.add(co.DispersiveMeasure(q, acquisition_strategy=flat.get_acquisition_strategy()))
            flat.add(op)
            single = expand(to_stim(flat))
            want_nested = []
            for g in single:
                want_nested.extend([g] if g[0] == 'M' else [g, g])
            if got != want_nested:
                res.fail('C08-nested-annotation', 'annotation %r: exported inside a repeated block as %r, alone as %r' % (a, got, single))
        un = c.apply_modifiers()
        got2 = judge(res, case, un, 'unrolled')
        if got != got2:
            res.fail('C08-unroll-multiset', 'annotation %r: export changes by unrolling' % (case,))
        res.outcome = tuple(got)
        res.states = [res.outcome]
        res.transitions = 6
        res.validated = 2
        res.trivial = not (got and (got[-1][1] or got[-1][2]))
        return res


# library circuits: identical program before/after unrolling --------------------------------------
class LibraryFamily(Family):
    name = 'library'
    rule = ('repetition-code constructors (full and simplified) for distance 2..3, cycles 0..4, all-zero and alternating states: exported program identical before '
            'and after apply_modifiers(), and equal to the reference translation; non-trivial = cycles >= 1')

    def shards(self, tier):
        return [0, 1]

    def cases(self, tier, shard):
        for d in (2, 3):
            for cycles in range(0, 5):
                for pat in (0, 1):
                    for simplified in (0, 1):
                        if (d + cycles) % 2 == shard:
                            yield (d, cycles, pat, simplified)

    def run(self, case):
        from qce_circuit.language import InitialStateContainer, InitialStateEnum
        from qce_circuit.library.repetition_code.circuit_constructors import construct_repetition_code_circuit, construct_repetition_code_circuit_simplified
        d, cycles, pat, simplified = case
        res = Res()
        states = [InitialStateEnum.ONE if (pat and i % 2) else InitialStateEnum.ZERO for i in range(d)]
        init = InitialStateContainer.from_ordered_list(states)
        ctor = construct_repetition_code_circuit_simplified if simplified else construct_repetition_code_circuit
        c = ctor(qec_cycles=cycles, initial_state=init)
        got = judge(res, case, c, 'as built')
        f1 = to_stim(c).flattened()
        un = c.apply_modifiers()
        got2 = judge(res, case, un, 'unrolled')
        f2 = to_stim(un).flattened()
        if got != got2:
            # listed finding F11: only the position of SHIFT_COORDS differs and Stim's canonical form (REPEAT unrolled,
            # coordinate shifts applied to the detectors) is the same program; anything else is a new violation
            if triage.shift_only_difference(got, got2, lambda g: g[0] == 'SHIFT_COORDS') and expand(f1) == expand(f2):
                res.fail('C08-' + triage.KF_SHIFT_POSITION, 'constructor input %r: SHIFT_COORDS is exported at a different position before/after unrolling' % (case,))
            else:
                res.fail('C08-library-identical', 'constructor input %r: exported program differs before/after unrolling' % (case,))
        res.outcome = tuple(got)
        res.states = [res.outcome]
        res.transitions = 3
        res.validated = 2
        res.trivial = cycles == 0
        return res


def families(tier):
    if tier == 'quick':
        return [ExportFamily(AllClassSpace(2)), ExportFamily(AllClassNestedSpace()), ExportFamily(NestedSpace2(2)), ExportFamily(TwoLevelSpace(1)),
                ExportFamily(NestedSpace2(2, reps=(('reg', 2),), atoms=[('X', 0), ('M', 0), ('R', 1)]), '/count-set-after-build', bump=True), AnnotationFamily(), LibraryFamily()]
    return [ExportFamily(AllClassSpace(2)), ExportFamily(AllClassNestedSpace()), ExportFamily(AllClassSpace(3, ('Rx90', 'Rxm90', 'Hadamard', 'CPhase', 'Barrier', 'DispersiveMeasure', 'VirtualPark', 'DetectorOperation'))),
            ExportFamily(NestedSpace2(2)), ExportFamily(TwoLevelSpace(2)),
            ExportFamily(NestedSpace2(2, reps=(('reg', 2), ('reg', 3)), atoms=[('X', 0), ('M', 0), ('R', 1), ('Z', 0)]), '/count-set-after-build', bump=True), AnnotationFamily(), LibraryFamily()]


def signature(f):
    return f['code']
