"""C16 — simultaneous two-qubit gates are accepted iff they cannot collide in frequency (exhaustive)."""
import itertools

from qce_circuit.connectivity.connectivity_surface_code import Surface17Layer, get_requires_parking
from qce_circuit.connectivity.intrf_channel_identifier import EdgeIDObj, QubitIDObj
from qce_circuit.connectivity.intrf_connectivity_gate_sequence import Operation
from qce_circuit.connectivity.mapping.gate_sequence_generator import GateSequenceGenerator
from mc.engine import Family, Res
from mc.ref import freq

PROP = 'C16'
LEVEL = 'exploration'
ASSUMPTIONS = [
    'exhaustive over all subsets of up to 3 (thorough: 4) of the 24 Surface-17 edges; parking judged for every idle qubit of every subset of pairwise disjoint gates '
    '(a qubit taking part in two gates at once is physically meaningless and the statement does not define parking for it)',
    'reference device model and predicate mc/ref/freq.py (independent copy of the layout)',
    'generator: fixed families of edge lists and every admissible subgroup size within the combination limit',
]


def edge_obj(e):
    return EdgeIDObj(QubitIDObj(e[0]), QubitIDObj(e[1]))


class SubsetFamily(Family):
    def __init__(self, kmax):
        self.kmax = kmax
        self.name = 'edge-subsets(<=%d)' % kmax
        self.rule = ('all subsets of 1..%d of the 24 Surface-17 edges: acceptance vs the reference predicate; for pairwise disjoint subsets every one of the 17 qubits vs the parking predicate; '
                     'non-trivial = the subset has at least two gates that touch or neighbour each other' % kmax)

    def shards(self, tier):
        return [(k, i) for k in range(1, self.kmax + 1) for i in range(24 if k > 1 else 1)]

    def cases(self, tier, shard):
        k, first = shard
        for comb in itertools.combinations(range(24), k):
            if k == 1 or comb[0] == first:
                yield comb

    def describe(self, tier):
        return {'edges': 24, 'kmax': self.kmax}

    def run(self, comb):
        res = Res()
        L = Surface17Layer()
        es = [freq.EDGES[i] for i in comb]
        objs = [edge_obj(e) for e in es]
        got = bool(GateSequenceGenerator.get_mutually_allowed([Operation.type_gate(o) for o in objs], L))
        want = freq.accepted(es)
        if got != want:
            res.fail('C16-accept', 'gates %r: accepted=%r, reference predicate says %r' % (es, got, want))
        # order independence of the verdict
        if len(objs) > 1:
            got_rev = bool(GateSequenceGenerator.get_mutually_allowed([Operation.type_gate(EdgeIDObj(o.qubit_id1, o.qubit_id0)) for o in reversed(objs)], L))
            if got_rev != got:
                res.fail('C16-accept-order', 'gates %r: verdict depends on the order of gates / of the qubits in an edge' % (es,))
        parks = ()
        if freq.disjoint(es):
            pk = []
            for q in freq.QUBITS:
                g = bool(get_requires_parking(QubitIDObj(q), objs, L))
                w = freq.requires_parking(q, es)
                if g != w:
                    res.fail('C16-park', 'gates %r, qubit %s: requires parking=%r, reference says %r' % (es, q, g, w))
                if g:
                    pk.append(q)
            parks = tuple(pk)
        res.outcome = (comb, got, parks)
        res.transitions = 1
        touching = any(set(a) & set(b) or any(y in freq.ADJ[x] for x in a for y in b) for a, b in itertools.combinations(es, 2))
        res.trivial = not touching
        return res


CHAIN8 = [('D5', 'Z1'), ('Z1', 'D1'), ('D1', 'X1'), ('X1', 'D2'), ('D2', 'X2'), ('X2', 'D3'), ('D3', 'Z2'), ('Z2', 'D6')]


def generator_families(tier):
    fams = [('chain8', CHAIN8, (2, 4))]
    fams.append(('chain6', CHAIN8[:6], (2, 3)))
    fams.append(('chain4', CHAIN8[2:6], (1, 2, 4)))
    fams.append(('z4-star+x4', [('Z4', 'D5'), ('Z4', 'D6'), ('Z4', 'D8'), ('Z4', 'D9'), ('X4', 'D8'), ('X4', 'D9')], (2, 3)))
    fams.append(('x3-star', [('X3', 'D4'), ('X3', 'D5'), ('X3', 'D7'), ('X3', 'D8')], (1, 2)))
    if tier != 'quick':
        fams.append(('mixed9', CHAIN8 + [('Z4', 'D9')], (3,)))
        fams.append(('plaquettes8', [('X2', 'D2'), ('X2', 'D3'), ('X2', 'D5'), ('X2', 'D6'), ('Z3', 'D4'), ('Z3', 'D7'), ('X1', 'D1'), ('Z2', 'D3')], (2, 4)))
    return fams


class GeneratorFamily(Family):
    name = 'sequence-generator'
    rule = ('fixed edge lists x subgroup sizes: every emitted sequence must use each requested gate exactly once, every step must be accepted by the reference predicate and no sequence may be emitted twice '
            '(partitions with only accepted steps that are not emitted are counted, not judged); non-trivial = at least one sequence is emitted and at least one partition is rejected')

    def __init__(self, tier):
        self.fams = generator_families(tier)

    def shards(self, tier):
        return list(range(len(self.fams)))

    def cases(self, tier, shard):
        name, edges, sizes = self.fams[shard]
        for s in sizes:
            yield (name, tuple(edges), s)

    def run(self, case):
        name, edges, size = case
        res = Res()
        L = Surface17Layer()
        norm = [tuple(sorted(e)) for e in edges]
        gen = GateSequenceGenerator(included_edge_ids=[edge_obj(e) for e in edges], connectivity=L)
        ident = gen.construct_allowed_gate_sequences(subgroup_size=size, max_combinations=10 ** 6)
        emitted = []
        for seq in ident.construct_operation_sequences():
            steps = []
            for step in seq.gate_operations:
                steps.append(tuple(sorted(tuple(sorted(q.id for q in op.identifier.qubit_ids)) for op in step)))
            flat = [e for st in steps for e in st]
            if sorted(flat) != sorted(norm):
                res.fail('C16-generator-gates', '%s size %d: sequence %r does not use each requested gate exactly once' % (name, size, steps))
            for st in steps:
                if not freq.accepted(list(st)):
                    res.fail('C16-generator-step', '%s size %d: emitted step %r is not accepted by the predicate' % (name, size, st))
                if len(st) != size:
                    res.fail('C16-generator-size', '%s size %d: step of %d gates' % (name, size, len(st)))
            emitted.append(tuple(sorted(steps)))
            judge_reported_parking(seq, steps, L, '%s size %d' % (name, size), res.fail)
        if len(set(emitted)) != len(emitted):
            res.fail('C16-generator-duplicate', '%s size %d: a sequence is emitted twice' % (name, size))
        # every partition into accepted steps
        want = set()
        total = [0]

        def rec(rest, acc):
            if not rest:
                total[0] += 1
                if all(freq.accepted(list(st)) for st in acc):
                    want.add(tuple(sorted(acc)))
                return
            first = rest[0]
            for others in itertools.combinations(rest[1:], size - 1):
                st = tuple(sorted((first,) + others))
                rec([e for e in rest if e not in st], acc + [st])
        if len(norm) % size == 0:
            rec(sorted(norm), [])
        # completeness is not part of the statement (a generator may prune); it is reported as a counter only
        res.extra = {'partitions-with-accepted-steps-not-emitted': len(want - set(emitted)), 'sequences-emitted': len(set(emitted))}
        res.outcome = (name, size, len(emitted))
        res.transitions = len(emitted)
        res.trivial = not (emitted and total[0] > len(emitted))
        return res


def judge_reported_parking(seq, steps, L, label, fail):
    """What an emitted sequence reports per step - directly and through the generic layer built from it - is exactly the set
    of idle qubits that require parking for that step's gates (the statement's parking clause, applied to emitted steps).
    The generic layer is queried too, as a user would before handing it to a description constructor."""
    for how, parks in (('get_required_parkings', seq.get_required_parkings(L)),
                       ('to_generic_surface_code', (lambda g: [list(g.get_gate_sequence_at_index(i).park_operations) for i in range(g.gate_sequence_count)])(seq.to_generic_surface_code(L)))):
        if len(parks) != len(seq.gate_operations):
            fail('C16-generator-parking', '%s: %s reports %d steps for %d' % (label, how, len(parks), len(seq.gate_operations)))
            continue
        for step, ops in zip(seq.gate_operations, parks):
            st = [tuple(sorted(q.id for q in op.identifier.qubit_ids)) for op in step]
            got = sorted(op.identifier.id for op in ops)
            want = sorted(q for q in freq.QUBITS if freq.requires_parking(q, st))
            if got != want:
                fail('C16-generator-parking', '%s: %s reports parking %r for step %r, required are %r' % (label, how, got, sorted(st), want))
    generic = seq.to_generic_surface_code(L)
    for i in range(generic.gate_sequence_count):
        layer = generic.get_gate_sequence_at_index(i)
        edge_ids = [op.identifier for op in layer.gate_operations]
        for q in generic.qubit_ids:
            get_requires_parking(q, edge_ids, generic)


class GeneratorSequenceFamily(Family):
    """Two generator runs in one process (edge list i, then edge list j of the same length): the second run must not
    depend on the first (a verdict remembered under the position of a gate in the list would be stale)."""
    name = 'sequence-generator/two-runs'
    rule = ('every ordered pair of distinct 4-edge lists from a fixed family, generator run on the first and then on the second list in the same process (subgroup size 2): every emitted step of '
            'both runs accepted by the predicate, each gate once; non-trivial = both runs emit at least one sequence or reject at least one partition')
    LISTS = [
        [('D1', 'Z1'), ('D9', 'X4'), ('D3', 'X2'), ('D7', 'Z3')],
        [('D1', 'Z1'), ('D2', 'X1'), ('D9', 'X4'), ('D8', 'Z4')],
        [('D5', 'Z1'), ('D1', 'Z1'), ('D1', 'X1'), ('D2', 'X1')],
        [('D4', 'Z3'), ('D7', 'X3'), ('D6', 'Z2'), ('D3', 'X2')],
    ]

    def shards(self, tier):
        return [None]

    def cases(self, tier, shard):
        for i in range(len(self.LISTS)):
            for j in range(len(self.LISTS)):
                if i != j:
                    yield (i, j)

    def run(self, case):
        """Runs in a fresh interpreter, so that the verdict does not depend on what this worker executed before."""
        import json, os, subprocess, sys
        res = Res()
        out = subprocess.run([sys.executable, '-W', 'ignore', '-c',
                              'import json, sys; from mc.props.c16 import two_runs; print(json.dumps(two_runs(json.loads(sys.argv[1]))))', json.dumps(list(case))],
                             env=dict(os.environ), capture_output=True, text=True, timeout=600)
        if out.returncode != 0:
            res.fail('C16-subprocess', out.stderr[-400:])
            return res
        fails, counts = json.loads(out.stdout.strip().splitlines()[-1])
        for code, detail in fails:
            res.fail(code, detail)
        res.outcome = (case, tuple(counts))
        res.transitions = sum(counts)
        res.trivial = False
        return res


def two_runs(case):
    from mc import world  # noqa: F401
    L = Surface17Layer()
    fails, out = [], []
    for which in case:
        edges = GeneratorSequenceFamily.LISTS[which]
        gen = GateSequenceGenerator(included_edge_ids=[edge_obj(e) for e in edges], connectivity=L)
        ident = gen.construct_allowed_gate_sequences(subgroup_size=2)
        n = 0
        for seq in ident.construct_operation_sequences():
            n += 1
            steps = [tuple(sorted(tuple(sorted(q.id for q in op.identifier.qubit_ids)) for op in step)) for step in seq.gate_operations]
            if sorted(e for st in steps for e in st) != sorted(tuple(sorted(e)) for e in edges):
                fails.append(('C16-generator-gates', 'lists %r, list %d: sequence %r does not use each requested gate exactly once' % (case, which, steps)))
            for st in steps:
                if not freq.accepted(list(st)):
                    fails.append(('C16-generator-step', 'lists %r (run in this order), list %d: emitted step %r is not accepted by the predicate' % (case, which, st)))
            judge_reported_parking(seq, steps, L, 'lists %r (run in this order), list %d' % (case, which), lambda c, d: fails.append((c, d)))
        out.append(n)
    return fails, out


POOL8 = [('D1', 'Z1'), ('D8', 'X4'), ('D2', 'X1'), ('D7', 'Z3'), ('D1', 'X1'), ('D9', 'X4'), ('D4', 'Z1'), ('D3', 'X2')]


class OrderedTupleFamily(Family):
    """Acceptance must not depend on the order in which the gates are listed: every ordered k-tuple (k = 2, 3, 4) of distinct edges from a
    pool of eight edges that collide with each other in many ways, given (a) to get_mutually_allowed and (b) to the generator as an edge
    list with subgroup size k (the only partition is the tuple itself, so any emitted sequence is that step)."""
    name = 'ordered-tuples'
    rule = ('every ordered k-tuple, k in {2,3,4}, of distinct edges from a pool of 8: get_mutually_allowed vs the predicate, and the generator with subgroup size k may emit '
            'the step only if the predicate accepts it; plus edge lists whose length is not a multiple of the subgroup size (nothing that omits a gate may be emitted); '
            'non-trivial = the tuple is rejected by the predicate')

    def shards(self, tier):
        return [(k, i) for k in (2, 3, 4) for i in range(8)] + [('ragged', 0)]

    def cases(self, tier, shard):
        k, first = shard
        if k == 'ragged':
            for n, size in ((5, 2), (4, 3), (2, 3), (7, 3), (5, 4)):
                yield ('ragged', tuple(range(n)), size)
            return
        for t in itertools.permutations(range(8), k):
            if t[0] == first:
                yield ('tuple', t, k)

    def run(self, case):
        kind, idx, size = case
        res = Res()
        L = Surface17Layer()
        edges = [POOL8[i] for i in idx]
        norm = [tuple(sorted(e)) for e in edges]
        objs = [edge_obj(e) for e in edges]
        want = freq.accepted(norm)
        if kind == 'tuple':
            ops = [Operation.type_gate(o) for o in objs]
            before = list(ops)
            got = bool(GateSequenceGenerator.get_mutually_allowed(ops, L))
            if got != want:
                res.fail('C16-accept', 'gates %r (in this order): accepted=%r, reference predicate says %r' % (edges, got, want))
            mutated = int(len(ops) != len(before) or any(a is not b for a, b in zip(ops, before)))   # counted, not judged (not part of the statement)
        gen = GateSequenceGenerator(included_edge_ids=objs, connectivity=L)
        ident = gen.construct_allowed_gate_sequences(subgroup_size=size, max_combinations=10 ** 6)
        n = 0
        for seq in ident.construct_operation_sequences():
            n += 1
            steps = [tuple(sorted(tuple(sorted(q.id for q in op.identifier.qubit_ids)) for op in step)) for step in seq.gate_operations]
            if sorted(e for st in steps for e in st) != sorted(norm):
                res.fail('C16-generator-gates', 'edge list %r, subgroup size %d: sequence %r does not use each requested gate exactly once' % (edges, size, steps))
            for st in steps:
                if not freq.accepted(list(st)):
                    res.fail('C16-generator-step', 'edge list %r, subgroup size %d: emitted step %r is not accepted by the predicate' % (edges, size, st))
        res.extra = {'accepted-single-step-not-emitted': int(kind == 'tuple' and want and n == 0), 'argument-list-changed': mutated if kind == 'tuple' else 0}
        res.outcome = (case, n)
        res.transitions = 1 + n
        res.trivial = bool(want) and kind == 'tuple'
        return res


def families(tier):
    return [SubsetFamily(3 if tier == 'quick' else 4), GeneratorFamily(tier), GeneratorSequenceFamily(), OrderedTupleFamily()]


def signature(f):
    return f['code']
