"""C14 — noise dressing only adds noise, with the configured strengths (exhaustive settings grid x circuit space)."""
import itertools

from qce_circuit.addon_stim import to_stim, apply_noise
from qce_circuit.addon_stim.noise_settings_manager import NoiseSettings, QubitNoiseModelParameters, OperationDurationParameters
from qce_circuit.connectivity.intrf_channel_identifier import QubitIDObj
from qce_circuit.language import InitialStateContainer, InitialStateEnum
from qce_circuit.library.repetition_code.circuit_constructors import construct_repetition_code_circuit
from mc import world
from mc.engine import Family, Res
from mc.interp import build
from mc.ref.noise import pauli_channel, block_duration, split_blocks
from mc.ref.stim_tr import expand
from mc.spaces import Space

PROP = 'C14'
LEVEL = 'exploration'
ASSUMPTIONS = [
    'circuits: exporter outputs for all relation-free programs of length <= 2 (3 on a sub-alphabet) over the kinds the exporter supports, blocks with counts, and library circuits; '
    'settings grid: default (T1,T2) in three pairs incl. T2 > 2 T1 (clamp), assignment error in {0, 0.02, 0.5}, two per-qubit overrides (one with an explicit zero assignment error), two duration tables (measurement longest / not longest), '
    'index maps {empty, total, partial}',
    'reference formula mc/ref/noise.py; continuous parameters are covered on this grid only',
]
EPS = 1e-12
T_PAIRS = ((10e-6, 15e-6), (5e-6, 5e-6), (1e-6, 5e-6))
ASSIGN = (0.0, 0.02, 0.5)
TABLES = ((500e-9, 60e-9, 30e-9, 20e-9), (10e-9, 60e-9, 30e-9, 20e-9))   # (M, CZ, H, X)
OVERRIDE = (2e-6, 3e-6, 0.1)
OVERRIDE_ZERO = (5e-6, 4e-6, 0.0)    # a qubit whose own entry says: no assignment error at all (an explicit zero is a value, not 'unset')
MAPS = ('empty', 'total', 'partial')


def settings_grid():
    return list(itertools.product(range(len(T_PAIRS)), range(len(ASSIGN)), range(len(TABLES)), MAPS))


class NoiseSpace(Space):
    name = 'S'
    ATOMS = [('X', 0), ('X', 1), ('X90', 0), ('H', 1), ('Y90', 1), ('I', 0), ('R', 0), ('R', 1), ('M', 0), ('M', 1), ('Z', 0), ('B', 0), ('P', 1), ('W', 0)]

    def __init__(self, max_len, atoms=None):
        super().__init__(max_len)
        leafs = [('op', k, q, None) for k, q in (atoms or self.ATOMS)]
        blocks = [('sub', r, (a,)) for a in leafs[:6] + leafs[8:12] for r in (2,)]
        self._s = leafs + blocks

    def steps(self, i):
        return self._s


def judge(res, label, sc, setting):
    ti, ai, di, mp = setting
    t1, t2 = T_PAIRS[ti]
    ae = ASSIGN[ai]
    dmz, dcz, dh, dx = TABLES[di]
    ns = NoiseSettings(default_t1=t1, default_t2=t2, default_assignment_error=ae,
                       individual_noise={QubitIDObj('A'): QubitNoiseModelParameters(t1=OVERRIDE[0], t2=OVERRIDE[1], assignment_error=OVERRIDE[2]),
                                         QubitIDObj('B0'): QubitNoiseModelParameters(t1=OVERRIDE_ZERO[0], t2=OVERRIDE_ZERO[1], assignment_error=OVERRIDE_ZERO[2])},
                       operation_durations=OperationDurationParameters(duration_mz=dmz, duration_cz=dcz, duration_h=dh, duration_x=dx))
    base = expand(sc.flattened())
    qubits = sorted({t[1] for name, tg, a in base for t in tg if t[0] == 'q'})
    if mp == 'empty':
        imap = {}
    elif mp == 'partial':
        imap = {1: QubitIDObj('A')}
    else:
        imap = {q: (QubitIDObj('A') if q == 1 else QubitIDObj('B%d' % q)) for q in qubits}

    def params(q):
        if q in imap and imap[q].id == 'A':
            return OVERRIDE
        if q in imap and imap[q].id == 'B0':
            return OVERRIDE_ZERO
        return (t1, t2, ae)
    noisy = apply_noise(sc, imap, noise_settings=ns)
    got = expand(noisy)
    # (1) only noise is added
    stripped = [(n, tg, () if n == 'M' else a) for n, tg, a in got if n != 'PAULI_CHANNEL_1']
    if stripped != base:
        k = next((i for i, (x, y) in enumerate(zip(stripped, base)) if x != y), min(len(stripped), len(base)))
        res.fail('C14-not-additive', '%s %r: stripping the noise does not give back the input: #%d %r vs %r' % (label, setting, k, stripped[k] if k < len(stripped) else None, base[k] if k < len(base) else None))
        return None
    # (2) ranges, (3) assignment errors
    for n, tg, a in got:
        if n == 'PAULI_CHANNEL_1':
            if len(a) != 3 or any(not (0.0 <= x <= 1.0) for x in a) or sum(a) > 1.0 + EPS:
                res.fail('C14-probability-range', '%s %r: PAULI_CHANNEL_1%r' % (label, setting, a))
        if n == 'M':
            want = params(tg[0][1])[2]
            if len(a) != 1 or abs(a[0] - want) > EPS:
                res.fail('C14-assignment-error', '%s %r: measurement of qubit %d carries %r, configured %r' % (label, setting, tg[0][1], a, want))
    # (4) idling channel around every TICK-delimited block
    durations = {'M': dmz, 'CZ': dcz, 'H': dh, 'X': dx}
    pos = 0
    for bi, blk in enumerate(split_blocks(base)):
        tmax = block_duration(blk, durations)
        nq = len(qubits)
        pre, body, post = got[pos:pos + nq], got[pos + nq:pos + nq + len(blk)], got[pos + nq + len(blk):pos + 2 * nq + len(blk)]
        pos += 2 * nq + len(blk)
        for side, grp in (('before', pre), ('after', post)):
            if any(n != 'PAULI_CHANNEL_1' for n, tg, a in grp) or sorted(tg[0][1] for n, tg, a in grp) != qubits:
                res.fail('C14-wrap-shape', '%s %r: block %d is not wrapped %s by one idling channel per qubit: %r' % (label, setting, bi, side, grp))
                return None
            for n, tg, a in grp:
                q = tg[0][1]
                want = pauli_channel(0.5 * tmax, params(q)[0], params(q)[1])
                if any(abs(x - y) > EPS for x, y in zip(a, want)):
                    res.fail('C14-idle-channel', '%s %r: block %d (longest configured duration %r) qubit %d %s: PAULI_CHANNEL_1%r, formula gives %r' % (label, setting, bi, tmax, q, side, a, want))
                    return None
    if pos != len(got):
        res.fail('C14-wrap-shape', '%s %r: %d trailing instructions' % (label, setting, len(got) - pos))
    return tuple(got)


class NoiseFamily(Family):
    def __init__(self, space):
        self.space = space
        self.name = 'noise/%s%d' % (space.name, space.max_len)
        self.rule = ('exported Stim circuits of all programs of space %s up to length %d x the full settings grid (%d settings); non-trivial = the circuit contains a measurement or a TICK' % (
            space.name, space.max_len, len(settings_grid())))

    def shards(self, tier):
        return self.space.shards()

    def cases(self, tier, shard):
        return self.space.cases(shard)

    def describe(self, tier):
        d = self.space.describe()
        d['settings'] = len(settings_grid())
        return d

    def run(self, prog):
        res = Res()
        with world.override(world.CFG_G):
            sc = to_stim(build(prog).circ)
        outs = []
        for setting in settings_grid():
            outs.append(judge(res, 'program %r' % (prog,), sc, setting))
            if res.fails:
                break
        res.outcome = tuple(outs)
        res.transitions = len(outs)
        txt = str(sc)
        res.trivial = not ('M ' in txt or 'TICK' in txt)
        return res


class LibraryNoise(Family):
    name = 'noise/library'
    rule = 'repetition-code circuits for distance 2..3, cycles 0..3 x the full settings grid; non-trivial = always'

    def shards(self, tier):
        return [(d, c) for d in (2, 3) for c in range(0, 4 if tier == 'quick' else 6)]

    def cases(self, tier, shard):
        for setting in settings_grid():
            yield shard + (setting,)

    def run(self, case):
        d, cycles, setting = case
        res = Res()
        init = InitialStateContainer.from_ordered_list([InitialStateEnum.ONE if i % 2 else InitialStateEnum.ZERO for i in range(d)])
        sc = to_stim(construct_repetition_code_circuit(qec_cycles=cycles, initial_state=init))
        res.outcome = judge(res, 'repetition code d=%d cycles=%d' % (d, cycles), sc, setting)
        res.transitions = 1
        res.trivial = False
        return res


def families(tier):
    if tier == 'quick':
        return [NoiseFamily(NoiseSpace(2)), LibraryNoise()]
    return [NoiseFamily(NoiseSpace(2)), NoiseFamily(NoiseSpace(3, atoms=[('X', 0), ('H', 1), ('M', 0), ('M', 1), ('Z', 0), ('B', 0), ('R', 1)])), LibraryNoise()]


def signature(f):
    return f['code']
