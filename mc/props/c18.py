"""C18 — drawing shows the schedule and leaves the circuit alone."""
import contextlib
import itertools

from qce_circuit.visualization.visualize_circuit import display_circuit as dc
from qce_circuit.visualization.visualize_circuit.draw_components import transform_constructor as tc
from mc import world
from mc.engine import Family, Res, HarnessError
from mc.interp import build, count_events
from mc.history import Session
from mc.props.c05 import AllClassSpace
from mc.ref.schedule import canonical_state
from mc.spaces import FlatSpace, NestedSpace1, Space

PROP = 'C18'
LEVEL = 'model_checking'
ASSUMPTIONS = [
    'bounded: program spaces x channel orders x label maps x modes x configurations under coverage.bounds',
    'observation points are harness-side spies on plot_circuit_description (the VisualCircuitDescription) and TransformConstructor.identifier_to_pivot; nothing in /repo is instrumented',
    'expected x = the start time the circuit itself reports under the durations in force for the drawing (the schedule is judged by C01); the sideways offset of simultaneous two-qubit gates is cosmetic and not judged',
    'non-interference with one or two drawings inserted at every position of mutation sequences is explored by C03 (observation kind plot)',
]
EPS = 1e-9
COMPACT = world.cfg(2, 1, 1, 2)   # the drawing's documented compact durations (readout, microwave, flux, reset)


class Spy:
    def __init__(self):
        self.descriptions = []
        self.pivots = []


@contextlib.contextmanager
def spying():
    spy = Spy()
    if not hasattr(dc, 'plot_circuit_description') or not hasattr(getattr(tc, 'TransformConstructor', None), 'identifier_to_pivot'):
        raise HarnessError('the drawing seams plot_circuit_description / TransformConstructor.identifier_to_pivot no longer exist; C18 cannot observe positions')
    orig_plot = dc.plot_circuit_description
    orig_pivot = tc.TransformConstructor.identifier_to_pivot

    def plot(description, **kw):
        spy.descriptions.append(description)
        return orig_plot(description, **kw)

    def pivot(self, identifier, time_component):
        v = orig_pivot(self, identifier, time_component)
        spy.pivots.append((identifier.id, time_component, v.x, v.y, list(self.channel_indices), self.channel_spacing))
        return v

    dc.plot_circuit_description = plot
    tc.TransformConstructor.identifier_to_pivot = pivot
    try:
        yield spy
    finally:
        dc.plot_circuit_description = orig_plot
        tc.TransformConstructor.identifier_to_pivot = orig_pivot


def occupied(c):
    out = []
    for ci in c.occupied_qubit_channels:
        if ci.id not in out:
            out.append(ci.id)
    return out


def snapshot(c):
    s = Session()
    s.c = c
    return s.vector()


def draw_and_judge(res, c, label, order, labels, compact, cfgname):
    """One drawing; returns the observation (rows, width)."""
    occ = occupied(c)
    cfg = world.cfg_by_name(cfgname)
    with world.override(cfg):
        before = snapshot(c)
        kw = {}
        if order is not None:
            kw['channel_order'] = list(order)
        if labels is not None:
            kw['channel_map'] = dict(labels)
        given = (list(kw.get('channel_order', [])), dict(kw.get('channel_map', {})))
        with spying() as spy:
            try:
                dc.plot_circuit(c, compact_visualization=compact, **kw)
            except Exception as e:
                world.close_figures()
                res.fail('C18-raises', '%s: plot_circuit(order=%r, map=%r, compact=%r) raised %s: %s' % (label, order, labels, compact, type(e).__name__, str(e)[:200]))
                return None
        world.close_figures()
        if (list(kw.get('channel_order', [])), dict(kw.get('channel_map', {}))) != given:
            # the drawing changed the order / map objects it was given: a user who reuses them (here: for the circuit's first
            # operation alone, which occupies a subset of the channels) must still get a drawing - "every valid channel order"
            first = type(c)()
            first.add(c.operations[0].copy()) if c.operations else None
            occ_first = occupied(first)
            if all(q in occ_first for q in given[0]):
                try:
                    dc.plot_circuit(first, **kw)
                except Exception as e:
                    res.fail('C18-arguments-changed', '%s: plot_circuit changed the channel order / label map it was given (%r -> %r); reusing them for a '
                             'circuit on channels %r, for which the original order is valid, raises %s' % (label, given, (kw.get('channel_order'), kw.get('channel_map')), occ_first, type(e).__name__))
                world.close_figures()
        after = snapshot(c)
        if before != after:
            diff = [k for k in before if before[k] != after[k]]
            res.fail('C18-side-effect', '%s: drawing (compact=%r, configuration %s) changed what the circuit reports: %r; before %r after %r' % (
                label, compact, cfgname, diff, {k: before[k] for k in diff}, {k: after[k] for k in diff}))
    if len(spy.descriptions) != 1:
        raise HarnessError('%s: plot_circuit did not pass exactly one description through plot_circuit_description (%d seen)' % (label, len(spy.descriptions)))
    d = spy.descriptions[0]
    want_rows = list(order or []) + [q for q in occ if q not in (order or [])]
    if list(d.channel_indices) != want_rows:
        res.fail('C18-rows', '%s: rows %r, requested order %r over occupied channels %r' % (label, list(d.channel_indices), order, occ))
    for i, q in enumerate(d.channel_indices):
        want = (labels or {}).get(q, q)
        if d.channel_label_map.get(i, q) != want:
            res.fail('C18-label', '%s: row %d (qubit %d) labelled %r, expected %r' % (label, i, q, d.channel_label_map.get(i), want))
        name = d.get_channel_header(index=i).channel_name if hasattr(d.get_channel_header(index=i), 'channel_name') else None
        if name is not None and str(want) not in name:
            res.fail('C18-label', '%s: header of row %d reads %r, expected label %r' % (label, i, name, want))
    # expected positions: the schedule under the durations in force while drawing
    with world.override(COMPACT if compact else cfg):
        world.clear_memo()
        ops = c.operations
        comps = c.composite_operations
        start = {id(o): o.start_time for o in list(ops) + list(comps)}
        latest = max([o.end_time for o in ops] + [1.0])
        world.clear_memo()
    if abs(d.channel_width - (latest + 1.0)) > EPS:
        res.fail('C18-width', '%s: figure sized for end time %r, latest end is %r' % (label, d.channel_width - 1.0, latest))
    drawn = set()
    for q, comp, x, y, rows, spacing in spy.pivots:
        if id(comp) not in start:
            continue
        drawn.add(id(comp))
        if abs(x - start[id(comp)]) > EPS:
            res.fail('C18-x', '%s: %s drawn at x=%r, starts at %r (compact=%r, configuration %s)' % (label, type(comp).__name__, x, start[id(comp)], compact, cfgname))
            break
        row = want_rows.index(q) if q in want_rows else None
        if row is None or abs(y + row * spacing) > EPS:
            res.fail('C18-row', '%s: %s on qubit %d drawn at y=%r, expected row %r' % (label, type(comp).__name__, q, y, row))
            break
    # components that are anchored at more than one point (two-qubit gates): their anchors sit on the rows of the qubits of one
    # multi-qubit operation of the circuit - e.g. not both on the control row
    from qce_circuit.utilities.geometric_definitions.intrf_rectilinear_transform import IPivotStrategy
    spacing_rows = {s_ for _q, _c, _x, _y, _r, s_ in spy.pivots}
    if len(spacing_rows) == 1 and hasattr(d, 'get_operation_draw_components'):
        spacing = spacing_rows.pop()
        multi = set()
        for o in ops:
            rws = frozenset(want_rows.index(ci.id) for ci in o.channel_identifiers if ci.id in want_rows)
            if len(rws) > 1:
                multi.add(rws)
        for comp in d.get_operation_draw_components():
            anchors = [v for v in vars(comp).values() if isinstance(v, IPivotStrategy)]
            if len(anchors) < 2 or not spacing:
                continue
            try:
                rws = frozenset(int(round(-a.get_pivot(None).y / spacing)) for a in anchors)
            except Exception:
                continue
            if multi and not any(rws == m or (len(rws) > 1 and rws <= m) for m in multi):
                res.fail('C18-row', '%s: a %s is anchored on rows %r, the multi-qubit operations of the circuit occupy rows %r' % (label, type(comp).__name__, sorted(rws), sorted(map(sorted, multi))))
                break
    missing = [type(o).__name__ for o in ops if id(o) not in drawn]
    if missing:
        res.fail('C18-not-drawn', '%s: operations without a drawn position: %r' % (label, missing))
    return (tuple(d.channel_indices), round(d.channel_width, 9), tuple(sorted((q, round(x, 9), round(y, 9)) for q, comp, x, y, r, s in spy.pivots if id(comp) in start)))


def orders_of(occ):
    yield None
    for k in range(1, len(occ) + 1):
        for p in itertools.permutations(occ, k):
            yield p


def label_maps(occ):
    yield None
    yield tuple((q, 'L%d' % q) for q in occ)
    if occ:
        yield ((occ[-1], 'only'), (77, 'unused'))


class DrawFamily(Family):
    def __init__(self, space, full=True, unroll=False, tag=''):
        self.space, self.full, self.unroll = space, full, unroll
        self.name = 'draw/%s%d%s%s' % (space.name, space.max_len, '/full' if full else '/basic', '/unrolled' if unroll else '')
        self.rule = ('all programs of space %s up to length %d%s; %s; plus an order naming an unoccupied channel (must raise ValueError); '
                     'non-trivial = at least two operations are drawn' % (space.name, space.max_len, ', modifiers applied' if unroll else '',
                     'every permutation of every prefix of the occupied channels x {no, total, partial} label map x compact/non-compact x configuration in force in {D, G}' if full else
                     'one or two settings (reversed order + total map + compact under G; default order + no map + non-compact under G)'))

    STRIDE = 16

    def shards(self, tier):
        # a drawing costs ~15 ms: split every space shard further by stride
        return [(sh, k) for sh in self.space.shards() for k in range(self.STRIDE if self.space.count_len(sh[0]) >= self.STRIDE else 1)]

    def cases(self, tier, shard):
        sh, k = shard
        n = self.STRIDE if self.space.count_len(sh[0]) >= self.STRIDE else 1
        for i, p in enumerate(self.space.cases(sh)):
            if i % n == k:
                yield p

    def describe(self, tier):
        return self.space.describe()

    def run(self, prog):
        res = Res()
        c = build(prog).circ
        if self.unroll:
            c = c.apply_modifiers()
        world.clear_memo()
        occ = occupied(c)
        outs = []
        n = 0
        if self.full:
            settings = [(o, l, cm, cf) for o in orders_of(occ) for l in label_maps(occ) for cm in (True, False) for cf in ('D', 'G')]
        else:
            settings = [(tuple(reversed(occ)), tuple((q, 'L%d' % q) for q in occ), True, 'G')]
            if self.unroll or self.space.name != 'A':
                settings.append((None, None, False, 'G'))
        for order, labels, compact, cfgname in settings:
            outs.append(draw_and_judge(res, c, 'program %r' % (prog,), order, dict(labels) if labels else None, compact, cfgname))
            n += 1
        # unknown channel in the requested order
        for bad in ([99], list(occ) + [99]) if self.full else ([occ[0], 99] if occ else [99],):
            with world.override(world.CFG_G):     # durations in force differ from the drawing's own
                before = snapshot(c)
                with spying() as spy:
                    try:
                        dc.plot_circuit(c, channel_order=bad)
                        res.fail('C18-unknown-channel', 'program %r: order %r names an unoccupied channel and was drawn' % (prog, bad))
                    except ValueError:
                        pass
                    except Exception as e:
                        res.fail('C18-unknown-channel', 'program %r: order %r raised %s instead of ValueError' % (prog, bad, type(e).__name__))
                world.close_figures()
                # a rejected drawing leaves the circuit (and the duration settings it is read under) alone as well
                after = snapshot(c)
                if before != after:
                    diff = [k for k in before if before[k] != after[k]]
                    res.fail('C18-side-effect', 'program %r: the rejected drawing (order %r) changed what the circuit reports: %r; before %r after %r' % (
                        prog, bad, diff, {k: before[k] for k in diff}, {k: after[k] for k in diff}))
                    world.reset()
            n += 1
        res.outcome = tuple(outs)
        res.states = [canonical_state(c)]
        res.transitions = count_events(prog) + n
        res.validated = n
        res.trivial = len(c.operations) < 2
        return res


def families(tier):
    if tier == 'quick':
        return [DrawFamily(AllClassSpace(1)), DrawFamily(FlatSpace(2)), DrawFamily(AllClassSpace(2), full=False),
                DrawFamily(NestedSpace1(2), full=False), DrawFamily(NestedSpace1(2), full=False, unroll=True)]
    return [DrawFamily(AllClassSpace(2)), DrawFamily(FlatSpace(2)), DrawFamily(FlatSpace(3, atoms=[('X', 0), ('R', 1), ('M', 0), ('Z', 0), ('B', 0), ('W', 1)]), full=False),
            DrawFamily(NestedSpace1(2)), DrawFamily(NestedSpace1(2, reps=(1, 2, 3)), full=True, unroll=True), DrawFamily(NestedSpace1(3), full=False, unroll=True)]


def signature(f):
    return f['code']
