"""C05 — copies are faithful and independent."""
import itertools

from qce_circuit import DeclarativeCircuit, RelationLink
from qce_circuit.structure import circuit_operations as co
from mc import world, opcatalog
from mc.engine import Family, Res
from mc.interp import RT, build, make_op, count_events
from mc.ref.schedule import chans_of, RT_NAME
from mc.spaces import Space, with_relations, NestedSpace1, N1_BODIES, N1_BODIES_EXTRA

PROP = 'C05'
LEVEL = 'model_checking'
ASSUMPTIONS = [
    'bounded: program length / alphabet under coverage.bounds; the class list is obtained by introspection at run time',
    'copy routes: nesting through DeclarativeCircuit.add, circuit_structure.copy(), repetition through apply_modifiers()',
    'differential oracle: the copy is compared with the original it was taken from; acquisition indices are compared only for independence (C07 judges their values)',
]
EPS = 1e-9


def op_fields(o):
    if hasattr(o, '__dataclass_fields__'):
        return tuple(sorted((k, repr(v)) for k, v in opcatalog.public_fields(o).items()))
    return ()


def rows(ops, comps):
    """Signature rows relative to the listing itself: relation target by position, times relative to the earliest start."""
    pos = {id(o): i for i, o in enumerate(ops)}
    cpos = {id(c): i for i, c in enumerate(comps)}
    t0 = min([o.start_time for o in ops]) if ops else 0.0
    out = []
    for o in ops:
        link = o.relation_link
        ref = link.reference_node
        if ref is None:
            rt, tgt = None, None
        else:
            rt = RT_NAME.get(link.relation_type, str(link.relation_type))
            tgt = pos.get(id(ref), ('C', cpos[id(ref)]) if id(ref) in cpos else 'OUT')
        out.append((type(o).__name__, op_fields(o), chans_of(o), round(o.duration, 9), getattr(o, 'acquisition_tag', None),
                    o.nr_of_repetitions, rt, tgt, round(o.start_time - t0, 9), round(o.end_time - t0, 9)))
    return out


def circ_rows(c):
    return rows(c.operations, c.composite_operations)


def nested_rows(top):
    """Rows of the single block nested in top; sub-blocks numbered inside that block."""
    return rows(top.operations, top.composite_operations[1:])


def struct_rows(s):
    return rows(s.decomposed_operations(), s.get_sub_composite_operations())


def acq_of(ops):
    return tuple((o.acquisition_index, o.circuit_level_acquisition_index) for o in ops if hasattr(o, 'acquisition_index'))


def normalise_outer(rws):
    """First-level operations of a nested copy carry the enclosing block's link once listed ('OUT'): same as no relation."""
    return [r[:6] + ((None, None) if r[7] == 'OUT' else (r[6], r[7])) + r[8:] for r in rws]


# ------------------------------------------------------------------------------------------------
class ClassObligations(Family):
    """Per-class obligation: copy(lookup) preserves class, every field, channels, duration, tag, relation type, and re-points the link."""
    name = 'per-class'
    rule = ('every concrete operation class found by introspection x {all init fields non-default, defaults} x every relation type x qubit in {0,1}; '
            'non-trivial = the class has at least one init field besides qubit and relation')

    def shards(self, tier):
        return [None]

    def cases(self, tier, shard):
        for cls in opcatalog.classes():
            for variant in ('nondefault', 'default'):
                for rt in ('FB', 'JS', 'JE'):
                    for q in (0, 1):
                        yield (cls.__name__, variant, rt, q)

    def describe(self, tier):
        return {'classes': [c.__name__ for c in opcatalog.classes()]}

    def run(self, case):
        name, variant, rt, q = case
        res = Res()
        cls = opcatalog.by_name()[name]
        circ = DeclarativeCircuit()
        ref = co.Rx180(2)
        ref_copy = co.Rx180(2)
        try:
            op, unknown = opcatalog.construct(cls, q, RelationLink(ref, RT[rt]), circ, variant)
        except opcatalog.Unconstructible as e:
            res.extra = {'unconstructible:' + str(e): 1}
            res.outcome = ('unconstructible', name)
            res.trivial = True
            return res
        if unknown:
            res.extra = {'fields-left-at-default:%s.%s' % (name, ','.join(unknown)): 1}
        with world.override(world.CFG_G):
            cp = op.copy(relation_transfer_lookup={ref: ref_copy})
            if cp is op:
                res.fail('C05-same-object', '%s.copy returned the operation itself' % name)
            if type(cp) is not cls:
                res.fail('C05-class', '%s.copy returned a %s' % (name, type(cp).__name__))
            fo, fc = opcatalog.public_fields(op), (opcatalog.public_fields(cp) if hasattr(cp, '__dataclass_fields__') else {})
            for k in fo:
                if k not in fc or repr(fc[k]) != repr(fo[k]):
                    res.fail('C05-field', '%s.copy: field %s is %r in the original and %r in the copy' % (name, k, fo[k], fc.get(k, '<missing>')))
            if chans_of(cp) != chans_of(op):
                res.fail('C05-channels', '%s.copy: channels %r -> %r' % (name, chans_of(op), chans_of(cp)))
            if abs(cp.duration - op.duration) > EPS:
                res.fail('C05-duration', '%s.copy: duration %r -> %r' % (name, op.duration, cp.duration))
            if getattr(cp, 'acquisition_tag', None) != getattr(op, 'acquisition_tag', None):
                res.fail('C05-tag', '%s.copy: tag changed' % name)
            lk = cp.relation_link
            if lk.reference_node is not ref_copy:
                res.fail('C05-link', '%s.copy: relation not re-pointed to the copied reference (points to %r)' % (name, lk.reference_node))
            elif lk.relation_type != RT[rt]:
                res.fail('C05-link-type', '%s.copy: relation type %s -> %s' % (name, rt, lk.relation_type))
            if op.relation_link.reference_node is not ref:
                res.fail('C05-original-link', '%s.copy changed the original relation' % name)
            res.outcome = (name, variant, rt, tuple(sorted((k, repr(v)) for k, v in fc.items())), chans_of(cp), round(cp.duration, 9))
        res.states = [res.outcome]
        res.transitions = 2
        res.validated = 1
        res.trivial = len(opcatalog.init_fields(cls)) <= 2
        return res


# ------------------------------------------------------------------------------------------------
class AllClassSpace(Space):
    name = 'A'

    def __init__(self, max_len, names=None):
        super().__init__(max_len)
        atoms = []
        for cls in opcatalog.classes():
            if names is not None and cls.__name__ not in names:
                continue
            multi = any(f.name == 'qubit_indices' for f in opcatalog.init_fields(cls))
            for q in ((0,) if multi else (0, 1)):
                atoms.append(('@' + cls.__name__, q))
        self.atoms = atoms
        self._steps = {}

    def steps(self, i):
        if i not in self._steps:
            self._steps[i] = with_relations(self.atoms, i)
        return self._steps[i]


REPRESENTATIVES = ('Rx180', 'Reset', 'DispersiveMeasure', 'VirtualPark', 'CPhase', 'Barrier', 'Wait', 'DetectorOperation', 'CoordinateShiftOperation')


def mutate_declarative(c, k):
    """k-th mutation of the independence clause, applied to a DeclarativeCircuit; returns the (possibly new) wrapper."""
    if k == 0:
        c.add(co.Rx180(0))
    elif k == 1:
        c.add(co.DispersiveMeasure(1, acquisition_strategy=c.get_acquisition_strategy()))
    elif k == 2:
        sb = DeclarativeCircuit()
        sb.add(co.Reset(0))
        c.add(sb)
    elif k == 3:
        c = c.apply_modifiers()
    elif k == 4:
        c = c.flatten()
    return c


N_MUT = 5


class CopyFamily(Family):
    def __init__(self, space, top_rep=2):
        self.space = space
        self.name = 'copy/%s%d' % (space.name, space.max_len)
        self.rule = ('all programs of space %s up to length %d; each copied by nesting (DeclarativeCircuit.add), circuit_structure.copy() and '
                     'repetition (top-level count 2, apply_modifiers); then %d mutations applied cumulatively to the original resp. the copy; '
                     'non-trivial = at least two entries' % (space.name, space.max_len, N_MUT))

    def shards(self, tier):
        return self.space.shards()

    def cases(self, tier, shard):
        return self.space.cases(shard)

    def describe(self, tier):
        return self.space.describe()

    def run(self, prog):
        res = Res()
        with world.override(world.CFG_G):
            self._run(prog, res)
        self._unrolled_copies(prog, res)
        self._block_copies(prog, res)
        self._structure_path(prog, res)
        res.transitions = 3 * count_events(prog) + 3 + 2 * N_MUT
        res.validated = 3
        res.trivial = len(prog) < 2
        return res

    def _run(self, prog, res):
        # route 1: nesting
        b = build(prog)
        c = b.circ
        top = DeclarativeCircuit()
        top.add(c)
        orig = circ_rows(c)
        nested = normalise_outer(nested_rows(top))
        if nested != orig:
            res.fail('C05-nest', 'program %r: nested copy differs: original %r copy %r' % (prog, first_diff(orig, nested), ''))
        res.states = [tuple(orig)]
        # route 2: explicit structure copy
        s2 = c.circuit_structure.copy()
        cp = struct_rows(s2)
        if cp != orig:
            res.fail('C05-structure-copy', 'program %r: circuit_structure.copy() differs: %r' % (prog, first_diff(orig, cp)))
        if any(x is y for x, y in zip(c.operations, s2.decomposed_operations())):
            res.fail('C05-shared-operation', 'program %r: copy shares an operation object with the original' % (prog,))
        # independence, original mutated
        v_top = (circ_rows(top), acq_of(top.operations))  # any consistent reading will do for independence
        v_s2 = struct_rows(s2)
        cc = c
        for k in range(N_MUT):
            cc = mutate_declarative(cc, k)
            if (circ_rows(top), acq_of(top.operations)) != v_top:
                res.fail('C05-dependent-nested', 'program %r: mutation %d of the original changed what the nested copy reports' % (prog, k))
                break
            if struct_rows(s2) != v_s2:
                res.fail('C05-dependent-structure-copy', 'program %r: mutation %d of the original changed what the structure copy reports' % (prog, k))
                break
        # independence, copy mutated (fresh build)
        world.clear_memo()
        b2 = build(prog)
        c2 = b2.circ
        top2 = DeclarativeCircuit()
        top2.add(c2)
        v_c2 = (circ_rows(c2), acq_of(c2.operations))
        tt = top2
        for k in range(N_MUT):
            tt = mutate_declarative(tt, k)
            if (circ_rows(c2), acq_of(c2.operations)) != v_c2:
                res.fail('C05-dependent-original', 'program %r: mutation %d of the nesting circuit changed what the original reports' % (prog, k))
                break
        # route 3: repetition of the whole circuit: unrolling a top-level count of 2 must list, per copy, what
        # unrolling the same circuit with count 1 lists (order-insensitive; relation targets by the target's own row)
        world.clear_memo()
        once = build(prog, rep=1).circ.apply_modifiers()
        base = rows(once.operations, once.composite_operations)
        world.clear_memo()
        c3 = build(prog, rep=2).circ
        first_ops = list(c3.operations)      # kept alive: id() of a collected operation can be reused by a new one
        first_ids = set(map(id, first_ops))
        un = c3.apply_modifiers()
        allops = un.operations
        has_zero = any(e[0] == 'sub' and e[1] == 0 for e in prog)   # a block with count 0 is emptied by design
        if not has_zero and len([o for o in allops if id(o) in first_ids]) != len(first_ids):
            res.fail('C05-repeat-lost', 'program %r: unrolling dropped original operations' % (prog,))
        twice = rows(allops, un.composite_operations)

        def loose(rws):
            out = []
            for r in rws:
                tgt = r[7]
                if isinstance(tgt, int):
                    t, rt = rws[tgt][:6], r[6]
                elif tgt is None or tgt == 'OUT':
                    t, rt = None, None
                else:
                    t, rt = 'block', r[6]
                out.append(r[:6] + (rt, t))
            return out
        lb, lt = loose(base), loose(twice)
        # first-level operations of the second copy follow the end of the first copy instead of nothing
        roots = [r for r in lb if r[7] is None]
        from collections import Counter
        want = Counter(map(repr, lb + lb))
        got = Counter(map(repr, lt))
        if want != got:
            # the only accepted difference: roots of the repeated copy now FOLLOWED_BY an operation of the previous copy
            d_missing = want - got
            d_extra = got - want
            ok = sum(d_missing.values()) == sum(d_extra.values()) <= len(roots) and all(
                any(repr(r) == m for r in roots) for m in d_missing) and all("'FB'" in e for e in d_extra)
            if not ok:
                res.fail('C05-repeat', 'program %r: two repetitions do not list twice the content of one: missing %r extra %r' % (
                    prog, list(d_missing.items())[:2], list(d_extra.items())[:2]))
        second = [o for o in allops if id(o) not in first_ids]
        res.outcome = (tuple(orig), len(second))


def has_block(prog):
    return any(e[0] == 'sub' for e in prog)


def _unrolled_copies(self, prog, res):
    """Route 4: the modifier-applied circuit (its copies are chained by multi-reference links) is copied by nesting and by
    circuit_structure.copy(); original and copies must report the same rows under the configuration in force at copy
    time AND under every other configuration afterwards (a copy that froze a time-dependent choice diverges later)."""
    if not has_block(prog):
        return
    for flat in (False, True):
        world.clear_memo()
        label = 'unrolled and flattened' if flat else 'unrolled'
        with world.override(world.CFG_G):
            c = build(prog).circ.apply_modifiers()
            if flat:
                c = c.flatten()
            top = DeclarativeCircuit()
            top.add(c)
            s2 = c.circuit_structure.copy()
        for cfgname in ('G', 'H', 'D'):
            with world.override(world.cfg_by_name(cfgname)):
                world.clear_memo()
                orig = circ_rows(c)
                nested = normalise_outer(nested_rows(top))
                cp = struct_rows(s2)
                if nested != orig:
                    res.fail('C05-nest-unrolled', 'program %r: nested copy of the %s circuit differs under configuration %s: %s' % (prog, label, cfgname, first_diff(orig, nested)))
                    break
                if cp != orig:
                    res.fail('C05-structure-copy-unrolled', 'program %r: structure copy of the %s circuit differs under configuration %s: %s' % (prog, label, cfgname, first_diff(orig, cp)))
                    break
    world.clear_memo()


CopyFamily._unrolled_copies = _unrolled_copies


def _block_copies(self, prog, res):
    """Route 5: every block entry of the circuit (as built and after apply_modifiers) is copied explicitly with copy();
    the stand-alone copy must list what the block lists, and must not move when the original circuit - in particular the
    blocks in front of the copied one - grows afterwards."""
    if not has_block(prog):
        return
    for unroll in (False, True):
        world.clear_memo()
        with world.override(world.CFG_G):
            b = build(prog)
            c = b.circ.apply_modifiers() if unroll else b.circ
            c.operations   # the blocks receive their relations
            blocks = [(i, b.ent[i]) for i, e in enumerate(prog) if e[0] == 'sub']
            copies = []
            for i, blk in blocks:
                cp = blk.copy()
                want = [r[:6] for r in struct_rows(blk)]
                got = [r[:6] for r in struct_rows(cp)]
                if got != want:
                    res.fail('C05-block-copy', 'program %r (%s): explicit copy of block entry %d lists %s' % (prog, 'unrolled' if unroll else 'as built', i, first_diff(want, got)))
                copies.append((i, cp, struct_rows(cp), round(cp.start_time, 9), round(cp.duration, 9)))
            # grow every block of the original, then the original circuit itself
            for i, blk in blocks:
                blk.add(co.Reset(0))
                blk.add(co.Reset(1))
            c.add(co.Rx180(0))
            world.clear_memo()
            for i, cp, rws, st, du in copies:
                if (struct_rows(cp), round(cp.start_time, 9), round(cp.duration, 9)) != (rws, st, du):
                    res.fail('C05-block-copy-dependent', 'program %r (%s): the explicit copy of block entry %d reports something else after the original grew: start %r -> %r, duration %r -> %r' % (
                        prog, 'unrolled' if unroll else 'as built', i, st, round(cp.start_time, 9), du, round(cp.duration, 9)))
                    break
    world.clear_memo()


CopyFamily._block_copies = _block_copies


def _structure_path(self, prog, res):
    """Route 6: blocks handed to add as structures (ICircuitCompositeOperation) are copied as well: the circuit must not
    share operations with the structure it was given, and must not change when that structure grows afterwards."""
    if not has_block(prog):
        return
    world.clear_memo()
    with world.override(world.CFG_G):
        b = build(prog, via_structure=True)
        before = (circ_rows(b.circ), acq_of(b.circ.operations))
        for i, sb in enumerate(b.subs):
            if sb is None:
                continue
            given = sb.circ.circuit_structure
            if b.ent[i] is given or set(map(id, b.ent[i].decomposed_operations())) & set(map(id, given.decomposed_operations())):
                res.fail('C05-structure-not-copied', 'program %r: a block handed to add as a structure is part of the circuit by reference' % (prog,))
            given.add(co.Reset(0))
            sb.circ.add(co.Rx180(1))
        world.clear_memo()
        if (circ_rows(b.circ), acq_of(b.circ.operations)) != before:
            res.fail('C05-structure-dependent', 'program %r: the circuit changed when a block that had been added to it (as a structure) grew afterwards' % (prog,))
    world.clear_memo()


CopyFamily._structure_path = _structure_path


def first_diff(a, b):
    if len(a) != len(b):
        return 'length %d vs %d' % (len(a), len(b))
    for i, (x, y) in enumerate(zip(a, b)):
        if x != y:
            return '#%d %r vs %r' % (i, x, y)
    return 'equal'


def families(tier):
    if tier == 'quick':
        return [ClassObligations(), CopyFamily(AllClassSpace(2)), CopyFamily(AllClassSpace(3, REPRESENTATIVES[:6])),
                CopyFamily(NestedSpace1(2, reps=(0, 1, 2), bodies=N1_BODIES + N1_BODIES_EXTRA)),
                CopyFamily(NestedSpace1(3, reps=(0, 2), bodies=N1_BODIES[:3], atoms=[('X', 0), ('Z', 0)]))]
    return [ClassObligations(), CopyFamily(AllClassSpace(2)), CopyFamily(AllClassSpace(3, REPRESENTATIVES)),
            CopyFamily(NestedSpace1(3, reps=(0, 1, 2), bodies=N1_BODIES + N1_BODIES_EXTRA))]


def signature(f):
    return f['code']
