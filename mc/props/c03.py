"""C03 — answers depend on the circuit, not on what was asked before (deviation-bounded history exploration)."""
import itertools

from mc import world
from mc.engine import Family, Res
from mc.history import Session, OBS_KINDS, diff_vectors
from mc import triage

PROP = 'C03'
LEVEL = 'model_checking'
ASSUMPTIONS = [
    'bounded: mutation sequences up to length L, at most k intermediate observations (deviations), alphabet under coverage.bounds',
    'differential oracle: the same mutations replayed on a cleared world without the intermediate observations',
    'hidden state is compared through the public observers only (listing, relations, times, duration, acquisition indices, Stim text)',
]

BODY1 = (('op', 'X', 0, None),)
BODY2 = (('op', 'X', 0, None), ('op', 'M', 1, None))
BODY4 = (('op', 'M', 1, None), ('sub', 1, (('op', 'R', 0, None),)))   # a nested block next to a parallel leaf of another duration source
BODY5 = (('sub', 1, (('op', 'X', 0, None),)), ('sub', 1, (('op', 'R', 1, None),)), ('op', 'X90', 2, ('FB', 0)))   # parallel nested blocks + follower
BODY3 = (('op', 'B', 0, None), ('op', 'M', 1, None))   # a root of fixed length in front of a measurement (global length); repeated


# a non-initial start state: a gate, a registry-length wait behind it (its own length does not depend on the global durations,
# its start does), a repeated block
PRELUDE = (('add', 'X', 0), ('add', 'Wreg', 0), ('sub', 2, BODY1))


def enabled(prefix):
    """Mutations enabled after a prefix (relation targets range over live entries; exit only inside an override)."""
    live = []      # indices of entries that can be referred to
    blocks = []    # indices of live entries that are blocks (can be grown through their own add)
    n = 0
    inside = False
    for ev in prefix:
        k = ev[0]
        if k in ('add', 'sub', 'rel', 'subreg'):
            live.append(n)
            if k in ('sub', 'subreg'):
                blocks.append(n)
            n += 1
        elif k == 'flatten':
            live = []          # blocks are dissolved; leaf entries stay valid but are re-linked: keep the alphabet simple
            blocks = []
        elif k == 'nest':
            live = [0]; n = 1
            blocks = [0]
        elif k == 'enter':
            inside = True
        elif k in ('exit', 'exit-raise'):
            inside = False
    out = [('add', 'X', 0), ('add', 'R', 1), ('add', 'M', 0), ('add', 'Wreg', 0), ('add', 'B', 0),
           ('sub', 2, BODY1), ('sub', 1, BODY2), ('sub', 2, BODY3), ('sub', 2, BODY4), ('sub', 1, BODY5), ('subreg', BODY1)]
    for i in live:
        out.append(('rel', 'FB', i))
        out.append(('rel', 'JE', i))
    for i in blocks:
        out.append(('grow', i))
        out.append(('grow', i, 3))     # on a channel that is not yet used anywhere
    out += [('apply',), ('flatten',), ('nest',), ('setreg', 5.0), ('setrep', 3)]
    if inside:
        out.append(('exit',))
        out.append(('exit-raise',))
    else:
        out += [('enter', 'G'), ('enter', 'Rdo')]
    return out


def mutation_sequences(L, start=()):
    L = L + len(start)

    def rec(prefix):
        if len(prefix) == L:
            yield tuple(prefix)
            return
        for ev in enabled(prefix):
            yield from rec(prefix + [ev])
    return rec(list(start))


def placements(n_mut, k, kinds, first=1):
    """All ways to insert k observations: positions first..n_mut (non-decreasing), every kind."""
    for pos in itertools.combinations_with_replacement(range(first, n_mut + 1), k):
        for ks in itertools.product(kinds, repeat=k):
            yield tuple(zip(pos, ks))


def weave(muts, plc):
    out = []
    for i, m in enumerate(muts):
        out.append(m)
        for p, kind in plc:
            if p == i + 1:
                out.append(('obs', kind))
    return tuple(out)


class HistFamily(Family):
    def __init__(self, L, k, kinds=OBS_KINDS, prelude=()):
        self.L, self.k, self.kinds, self.prelude = L, k, tuple(kinds), tuple(prelude)
        self.name = 'H(L=%d,k=%d)%s' % (L, k, '+prelude' if prelude else '')
        self.rule = ('all mutation sequences of length exactly %d over the alphabet of mc/props/c03.py, each with every placement of exactly %d '
                     'observations (kinds %s) after any mutation; plus the 0-observation reference run per sequence; '
                     'non-trivial = the reference circuit lists at least two operations' % (L, k, ','.join(kinds)))
        self._ref_key = None
        self._ref = None

    def shards(self, tier):
        pre = list(self.prelude)
        first = enabled(pre)
        if self.L == 1:
            return [(None, None)]
        second = {f: enabled(pre + [f]) for f in first}
        if self.L == 2:
            return [(f, None) for f in first]
        return [(f, s) for f in first for s in second[f]]

    def cases(self, tier, shard):
        f, s = shard
        n0 = len(self.prelude)
        for muts in mutation_sequences(self.L, self.prelude):
            if f is not None and muts[n0] != f:
                continue
            if s is not None and muts[n0 + 1] != s:
                continue
            # with a prelude (a non-initial start state) observations are placed after the prelude or later
            for plc in placements(len(muts), self.k, self.kinds, first=max(1, n0)):
                yield (muts, plc)

    def describe(self, tier):
        return {'L': self.L, 'k': self.k, 'obs_kinds': list(self.kinds), 'mutations_at_start': len(enabled([]))}

    def reference(self, muts):
        if self._ref_key != muts:
            world.reset()
            self._ref = run(muts)
            self._ref_key = muts
            world.reset()
        return self._ref

    def run(self, case):
        muts, plc = case
        muts = tuple(tuple(m) if not isinstance(m, tuple) else m for m in muts)
        res = Res()
        ref = self.reference(muts)
        got = run(weave(muts, plc))
        res.transitions = len(muts) + len(plc)
        res.validated = 1
        res.outcome = got if isinstance(got, str) else (got['ops'], got['duration'], got['acq'], got['stim'])
        res.states = [res.outcome]
        if isinstance(ref, str) or isinstance(got, str):
            if ref != got:
                res.fail('C03-exception', 'without observations: %r; with %r: %r' % (ref, plc, got))
            res.trivial = True
            return res
        res.trivial = len(ref['ops']) < 2
        for v, how in ((ref, 'without observations'), (got, 'with observations %r' % (plc,))):
            if v.get('not-restored'):
                res.fail('C03-override-not-restored', 'mutations %r, %s: after the temporary override was left, %s' % (muts, how, v['not-restored']))
                break
        diffs = diff_vectors(ref, got)
        if diffs:
            # counterfactual attribution to the listed finding F2 (mc/triage.py)
            world.reset()
            with triage.identity_equality_of_blocks():
                ref_cf = run(muts)
                world.reset()
                got_cf = run(weave(muts, plc))
            world.reset()
            attributed = not isinstance(ref_cf, str) and not isinstance(got_cf, str) and not diff_vectors(ref_cf, got_cf)
            for what, detail in diffs:
                code = ('C03-' + triage.KF_VALUE_EQUALITY) if attributed else ('C03-' + what)
                res.fail(code, '%s differs; mutations %r; observations %r; without|with: %s' % (what, muts, plc, detail))
        return res


def run(events):
    s = Session()
    try:
        for ev in events:
            if ev[0] == 'obs':
                try:
                    s.observe(ev[1])
                except Exception as e:   # a failing observer is not C03's business; the history goes on
                    pass
            else:
                s.apply(ev)
        v = s.vector()
        v['not-restored'] = s.not_restored
        return v
    except Exception as e:
        return 'EXC:%s:%s' % (type(e).__name__, str(e)[:120])
    finally:
        s.close()


def families(tier):
    if tier == 'quick':
        return [HistFamily(1, 1), HistFamily(2, 1), HistFamily(3, 1), HistFamily(2, 2), HistFamily(2, 1, prelude=PRELUDE)]
    return [HistFamily(1, 1), HistFamily(2, 1), HistFamily(3, 1), HistFamily(2, 2), HistFamily(4, 1, kinds=('times', 'acq', 'copy')), HistFamily(3, 2), HistFamily(2, 2, prelude=PRELUDE), HistFamily(3, 1, prelude=PRELUDE)]


def signature(f):
    """Shape of a counter-example: ordered kinds of the history + the observable that differs."""
    if f['code'] == 'C03-' + triage.KF_VALUE_EQUALITY:
        return f['code']
    muts, plc = f['case']
    kinds = []
    for i, m in enumerate(muts):
        kinds.append(m[0] if m[0] not in ('add', 'sub') else m[0] + ':' + (m[1] if m[0] == 'add' else str(m[1]) + '/' + str(len(m[2]))))
        for p, kind in plc:
            if p == i + 1:
                kinds.append('obs:' + kind)
    return f['code'] + ' @ ' + ' < '.join(kinds)
