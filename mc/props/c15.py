"""C15 — OpenQL export is the in-order image of the circuit (recording platform)."""
import contextlib

from qce_circuit.addon_openql.factory_manager import to_openql
from qce_circuit.addon_openql import platform_manager as pm
from mc import world
from mc.engine import Family, Res, HarnessError
from mc.interp import build, count_events
from mc.props.c05 import AllClassSpace
from mc.props.c08 import AllClassNestedSpace
from mc.ref.openql_tr import translate_block, RecProgram, RecKernel
from mc.ref.schedule import canonical_state
from mc.spaces import NestedSpace2, TwoLevelSpace, Space

PROP = 'C15'
LEVEL = 'model_checking'
ASSUMPTIONS = [
    'bounded: program spaces under coverage.bounds',
    'the OpenQL platform is replaced inside the checker by recording stand-ins for PlatformManager.construct_program / construct_kernel; '
    'the recorded call tree is linearised into the executed gate sequence (thorough tier: the stand-in is bound to real OpenQL by compiling a fixed family and parsing the cQASM)',
    'waits with a fractional duration are truncated by the exporter; the duration is judged only when it is integral',
]
KF_ORDER = 'blocks-before-kernel'   # was known finding F7a, repaired in /repo (2dfc51c)
KF_DUP = 'duplicate-kernel-name'   # was known finding F7b, repaired in /repo (2dfc51c)


@contextlib.contextmanager
def recording_platform():
    if 'construct_program' not in pm.PlatformManager.__dict__ or 'construct_kernel' not in pm.PlatformManager.__dict__:
        raise HarnessError('PlatformManager.construct_program / construct_kernel no longer exist; the recording platform cannot be installed')
    saved = (pm.PlatformManager.__dict__['construct_program'], pm.PlatformManager.__dict__['construct_kernel'])
    pm.PlatformManager.construct_program = classmethod(lambda cls, name: RecProgram(name))
    pm.PlatformManager.construct_kernel = classmethod(lambda cls, name: RecKernel(name))
    try:
        yield
    finally:
        pm.PlatformManager.construct_program, pm.PlatformManager.construct_kernel = saved


def same(obs, ref):
    if len(obs) != len(ref):
        return False
    for a, b in zip(obs, ref):
        if a[0] == 'wait' and b[0] == 'wait':
            if a[1] != b[1]:
                return False
            if float(b[2]).is_integer() and a[2] != b[2]:
                return False
            if not float(b[2]).is_integer() and not (int(b[2]) <= a[2] <= int(b[2]) + 1):
                return False
        elif a != b:
            return False
    return True


def judge(res, prog, c, label):
    ref = translate_block(c.circuit_structure)
    with recording_platform():
        p1 = to_openql(c)
        p2 = to_openql(c)
        p3 = to_openql(c, circuit_id='verif_id')
        p4 = to_openql(c, circuit_id='verif_id')
    if not isinstance(p1, RecProgram):
        raise HarnessError('to_openql did not build its program through PlatformManager.construct_program; the export cannot be recorded')
    obs = p1.linear()
    if p1.names() != p2.names() or p1.linear() != p2.linear():
        res.fail('C15-nondeterministic', '%s %r: exporting twice gives different names or programs: %r vs %r' % (label, prog, p1.names(), p2.names()))
    if p3.names() != p4.names() or p3.linear() != obs or p4.linear() != obs:
        res.fail('C15-nondeterministic-id', '%s %r: exporting twice with the same circuit_id gives different names or programs: %r vs %r' % (label, prog, p3.names(), p4.names()))
    dup = p1.duplicate_kernel_names()
    if dup:
        res.fail('C15-duplicate-kernel-name', '%s %r: different kernels of the exported program share the name(s) %r (OpenQL refuses such a program)' % (label, prog, dup))
    if not same(obs, ref):
        alt = translate_block(c.circuit_structure, blocks_first=True)
        if same(obs, alt):
            res.fail('C15-' + KF_ORDER, '%s %r: nested blocks are executed before the gates that precede them: expected %r, exported %r' % (label, prog, ref, obs))
        else:
            k = next((i for i, (a, b) in enumerate(zip(ref, obs)) if a != b), min(len(ref), len(obs)))
            res.fail('C15-translation', '%s %r: step #%d: expected %r, exported %r (lengths %d / %d)' % (
                label, prog, k, ref[k] if k < len(ref) else None, obs[k] if k < len(obs) else None, len(ref), len(obs)))
    return obs, p1.names()


def program_steps(prog, circ=None):
    """What the *program* says must be executed (order aside): every added leaf translated on its own, as often as its
    blocks are repeated - independent of the circuit's own listing (an operation that changes kind or qubits on its way
    into a block shows up).  Waits are compared by qubits only (durations are judged in order by the main clause)."""
    from qce_circuit import DeclarativeCircuit
    from mc.interp import make_op, rep_count
    from mc.ref.openql_tr import translate_leaf
    circ = circ or DeclarativeCircuit()
    out = []
    for e in prog:
        if e[0] == 'op':
            for st in translate_leaf(make_op(e[1], e[2], None, circ, e[4] if len(e) > 4 else '')):
                out.append(st[:2] if st[0] == 'wait' else st)
        else:
            out.extend(program_steps(e[2], circ) * rep_count(e[1]))
    return out


class ExportFamily(Family):
    def __init__(self, space):
        self.space = space
        self.name = 'openql/%s%d' % (space.name, space.max_len)
        self.rule = 'all programs of space %s up to length %d exported through to_openql on the recording platform; non-trivial = at least two gate calls are recorded' % (space.name, space.max_len)

    def shards(self, tier):
        return self.space.shards()

    def cases(self, tier, shard):
        return self.space.cases(shard)

    def describe(self, tier):
        return self.space.describe()

    def run(self, prog):
        res = Res()
        with world.override(world.CFG_G):
            c = build(prog).circ
            obs, names = judge(res, prog, c, 'as built')
            from collections import Counter
            want_ms, got_ms = Counter(program_steps(prog)), Counter(st[:2] if st[0] == 'wait' else st for st in obs)
            if want_ms != got_ms:
                res.fail('C15-program-multiset', 'program %r: the exported steps are not what the added operations translate to: missing %r, unexpected %r' % (
                    prog, sorted((want_ms - got_ms).items(), key=repr)[:3], sorted((got_ms - want_ms).items(), key=repr)[:3]))
            res.outcome = (tuple(obs), tuple(names))
            res.states = [canonical_state(c)]
        res.transitions = count_events(prog) + 2
        res.validated = 1
        res.trivial = len(obs) < 2
        return res


HISTORY_PROGRAMS = [
    (('op', 'X', 0, None),),
    (('op', 'X', 0, None), ('sub', 2, (('op', 'M', 1, None),))),
    (('sub', 1, (('op', 'H', 0, None),)), ('op', 'X90', 1, None)),
    (('op', 'Z', 0, None), ('op', 'M', 0, None)),
]


def export_in_order(order):
    """Runs in a fresh interpreter: exports the given programs one after the other, returns names and steps of each."""
    out = []
    with world.override(world.CFG_G):
        for i in order:
            c = build(HISTORY_PROGRAMS[i]).circ
            with recording_platform():
                p = to_openql(c)
            out.append((i, [list(x) for x in p.names()], repr(p.linear())))
    return out


class ExportHistoryFamily(Family):
    """'The same circuit always yields the same program and kernel names': what a circuit is exported as must not depend on
    which other circuits the process exported before it.  Every ordered pair of four programs is exported in two fresh
    interpreters (a then b, b then a) and each program's names and steps are compared across the two."""
    name = 'openql/export-history'
    rule = 'every unordered pair of %d programs exported in both orders, each order in a fresh interpreter; non-trivial = always' % len(HISTORY_PROGRAMS)

    def shards(self, tier):
        return [0]

    def cases(self, tier, shard):
        n = len(HISTORY_PROGRAMS)
        return [(i, j) for i in range(n) for j in range(i + 1, n)]

    def describe(self, tier):
        return {'programs': [repr(p) for p in HISTORY_PROGRAMS]}

    def run(self, case):
        import json, os, subprocess, sys
        res = Res()
        seen = {}
        for order in (list(case), list(reversed(case))):
            out = subprocess.run([sys.executable, '-W', 'ignore', '-c',
                                  'import json, sys; from mc.props.c15 import export_in_order; print(json.dumps(export_in_order(json.loads(sys.argv[1]))))', json.dumps(order)],
                                 env=dict(os.environ), capture_output=True, text=True, timeout=600)
            if out.returncode != 0:
                raise HarnessError('export subprocess failed: ' + out.stderr[-400:])
            for i, names, steps in json.loads(out.stdout.strip().splitlines()[-1]):
                if i in seen and seen[i] != (names, steps):
                    res.fail('C15-history-dependent', 'program %r is exported as %r when it is the first export of a process and as %r after program %r was exported' % (
                        HISTORY_PROGRAMS[i], seen[i][0] if order[0] != i else names, names if order[0] != i else seen[i][0], HISTORY_PROGRAMS[[x for x in case if x != i][0]]))
                seen.setdefault(i, (names, steps))
        res.outcome = tuple(sorted((i, repr(v)) for i, v in seen.items()))
        res.transitions = 4
        res.validated = 4
        res.trivial = False
        return res


class LongSequenceSpace(Space):
    """L(n): implicitly sequenced programs of up to n entries over two gates and two blocks (runs of gates of equal and of
    different length in front of, between and behind blocks)."""
    name = 'L'

    def __init__(self, max_len):
        super().__init__(max_len)
        self._s = [('op', 'X', 0, None), ('op', 'X90', 1, None), ('sub', 1, (('op', 'H', 0, None),)), ('sub', 2, (('op', 'M', 1, None), ('sub', 1, (('op', 'Y', 0, None),)), ('op', 'X', 1, None)))]

    def steps(self, i):
        return self._s


def families(tier):
    if tier == 'quick':
        return [ExportHistoryFamily(), ExportFamily(LongSequenceSpace(5)), ExportFamily(AllClassSpace(2)), ExportFamily(AllClassNestedSpace()), ExportFamily(NestedSpace2(2)), ExportFamily(TwoLevelSpace(1))]
    return [ExportHistoryFamily(), ExportFamily(LongSequenceSpace(6)), ExportFamily(AllClassSpace(2)), ExportFamily(AllClassNestedSpace()), ExportFamily(AllClassSpace(3, ('Rx90', 'Rxm90', 'CPhase', 'Barrier', 'Wait', 'DispersiveMeasure', 'VirtualPark'))),
            ExportFamily(NestedSpace2(2)), ExportFamily(TwoLevelSpace(2))]


def signature(f):
    return f['code']


# ------------------------------------------------------------------------------------------------
# Binding the recording stand-in to the real thing (thorough tier): the same circuits are exported with the real
# OpenQL platform, compiled into a scratch directory, and the cQASM is parsed and compared with the recording.
import re
import shutil
import tempfile
import pathlib

QASM_NAME = {'prep_z': 'prepz'}


def parse_qasm(text):
    out = []
    stack = [out]
    counts = []
    for line in text.splitlines():
        s = line.strip()
        if not s or s.startswith('#') or s.startswith('version') or s.startswith('pragma') or s.startswith('var') or s.startswith('.'):
            continue
        m = re.match(r'foreach \((\w+) = (\d+)\.\.(\d+)\) \{', s)
        if m:
            counts.append(abs(int(m.group(2)) - int(m.group(3))) + 1)
            stack.append([])
            continue
        if s == '}':
            body = stack.pop()
            stack[-1].extend(body * counts.pop())
            continue
        name, _, rest = s.partition(' ')
        qs = tuple(int(x) for x in re.findall(r'q\[(\d+)\]', rest))
        name = QASM_NAME.get(name, name)
        stack[-1].append((name, qs))
    return out


def rec_to_qasm_seq(seq):
    out = []
    for x in seq:
        if x[0] == 'gate':
            out.append((x[1], x[2]))
        elif x[0] == 'cz':
            out.append(('cz', x[1]))
        elif x[0] == 'barrier':
            out.append(('barrier', x[1]))
        elif x[0] == 'wait':
            out.append(('wait', x[1]))
    return out


class RealOpenQL(Family):
    name = 'real-openql'
    rule = ('conformance of the recording stand-in: a fixed family (all implicit flat programs of length <= 2 over the supported kinds, and every single block of 1-2 atoms with '
            'count 1..2 followed/preceded by a gate) is exported with the real OpenQL platform, compiled into a scratch directory, and the cQASM gate sequence is compared with the '
            'recorded one; non-trivial = at least two gates')

    def shards(self, tier):
        return list(range(16))

    def programs(self):
        atoms = [('op', k, q, None) for k, q in (('X', 0), ('X90', 1), ('Xm90', 0), ('Y', 1), ('Y90', 0), ('Ym90', 1), ('H', 0), ('I', 1), ('R', 0), ('M', 1), ('Z', 0), ('B', 0), ('W', 1), ('P', 0))]
        for a in atoms:
            yield (a,)
        for a in atoms:
            for b in atoms:
                yield (a, b)
        small = atoms[:4] + [atoms[9], atoms[10]]
        for rep in (1, 2):
            for a in small:
                for b in small:
                    yield (('sub', rep, (a, b)),)
                    yield (('sub', rep, (a,)), b)
                    yield (b, ('sub', rep, (a,)))
        yield (('sub', 1, (small[0],)), ('sub', 1, (small[1],)))
        yield (('sub', 1, (small[0],)), ('sub', 1, (small[0],)))
        # two nesting levels, nested counts, blocks of the same shape
        for r1 in (1, 2, 3):
            for r2 in (1, 2):
                inner = ('sub', r2, (small[4],))
                yield (small[0], ('sub', r1, (small[1], inner, small[0])), ('sub', r1, (small[1], inner, small[0])), small[1])
                yield (('sub', r1, (inner,)), small[0], ('sub', r1, (inner, inner)))

    def cases(self, tier, shard):
        for i, p in enumerate(self.programs()):
            if i % 16 == shard:
                yield p

    def run(self, prog):
        import openql as ql
        res = Res()
        c = build(prog).circ
        with recording_platform():
            rec = to_openql(c, circuit_id='conf')
        want = rec_to_qasm_seq(rec.linear())
        names = [n for k, n in rec.names() if k == 'kernel']
        scratch = tempfile.mkdtemp(prefix='qco-openql-')
        saved = pm.PlatformManager.__dict__['openql_output_directory']
        try:
            pm.PlatformManager.openql_output_directory = classmethod(lambda cls: pathlib.Path(scratch))
            pm.OPENQL_LOG_LEVEL = 'LOG_NOTHING'
            ql.set_option('log_level', 'LOG_NOTHING')
            ql.set_option('output_dir', scratch)
            try:
                real = to_openql(c, circuit_id='conf')
                real.compile()
                got = parse_qasm(open(pathlib.Path(scratch) / 'conf.qasm').read())
                if got != want:
                    res.fail('C15-recorder-mismatch', 'program %r: real OpenQL emits %r, the recording platform %r' % (prog, got, want))
                res.outcome = tuple(got)
            except RuntimeError as e:
                msg = str(e).split('\n')[0]
                if 'duplicate kernel name' in msg and len(set(names)) != len(names):
                    res.fail('C15-' + KF_DUP, 'program %r: real OpenQL rejects the export: %s (recorded kernel names %r)' % (prog, msg, names))
                else:
                    res.fail('C15-real-openql-error', 'program %r: %s' % (prog, msg))
                res.outcome = ('error', msg)
        finally:
            pm.PlatformManager.openql_output_directory = saved
            shutil.rmtree(scratch, ignore_errors=True)
        res.states = [res.outcome]
        res.transitions = count_events(prog) + 2
        res.validated = 1
        res.trivial = len(want) < 2
        return res


_base_families = families


def families(tier):
    fams = _base_families(tier)
    if tier != 'quick':
        fams.append(RealOpenQL())
    return fams
