"""C07 — acquisition indices enumerate measurements exactly, in order."""
import itertools

from qce_circuit.addon_stim import to_stim
from qce_circuit.structure.intrf_acquisition_operation import AcquisitionTag
from mc import world
from mc.engine import Family, Res
from mc.interp import build, count_events, rep_count
from mc.ref.schedule import chans_of, canonical_state
from mc.spaces import Space

PROP = 'C07'
LEVEL = 'model_checking'
ASSUMPTIONS = [
    'bounded: programs of length <= 2 (3 on a sub-alphabet) whose entries are measurements/gates or blocks of 1-2 atoms (a second nesting level in the thorough tier), counts <= 3',
    'the reference indexer is the statement itself: positions in the listing of the modifier-applied circuit',
    'the monotonicity clause is asserted only for programs without explicit relations in which no two operations overlap on a qubit channel',
]
EPS = 1e-9
QUBITS = (0, 1, 2)


class AcqSpace(Space):
    name = 'Q'

    def __init__(self, max_len, tags=('', 'a'), reps=(1, 2, 3), extra=(('X', 0), ('R', 1)), two_level=False, modes=('own', 'top')):
        super().__init__(max_len)
        leafs = [('op', 'M', q, None, t) for q in QUBITS for t in tags] + [('op', k, q, None) for k, q in extra]
        bodies = [(a,) for a in leafs] + [(a, b) for a in leafs for b in leafs]
        s = list(leafs)
        for body in bodies:
            for r in reps:
                for mode in modes:
                    s.append(('sub', r, body, mode))
        if two_level:
            small = [('op', 'M', 0, None, ''), ('op', 'M', 1, None, 'a'), ('op', 'X', 0, None)]
            inner = [('sub', r, (a,), m) for a in small for r in reps if r > 1 for m in modes]
            for x in inner:
                for r in reps:
                    for mode in modes:
                        s.append(('sub', r, (x,), mode))
                        for a in small:
                            s.append(('sub', r, (a, x), mode))
                            s.append(('sub', r, (x, a), mode))
        self._s = s
        self.tags, self.reps = tags, reps

    def steps(self, i):
        return self._s

    def describe(self):
        d = super().describe()
        d.update({'tags': list(self.tags), 'reps': [repr(r) for r in self.reps]})
        return d


def overlap_free(ops):
    """No two operations of non-zero length overlap on a qubit channel (ALL overlaps every channel of its qubit)."""
    per_q = {}
    for o in ops:
        if o.duration <= EPS:
            continue
        for q, ch in chans_of(o):
            per_q.setdefault(q, []).append((o.start_time, o.end_time, ch))
    for q, lst in per_q.items():
        lst.sort()
        for i, (s1, e1, c1) in enumerate(lst):
            for s2, e2, c2 in lst[i + 1:]:
                if s2 >= e1 - EPS:
                    break
                if c1 == c2 or 'ALL' in (c1, c2):
                    return False
    return True


class AcqFamily(Family):
    def __init__(self, space, cfgname='G', structure_path=False):
        self.space, self.cfgname, self.structure_path = space, cfgname, structure_path
        self.name = 'acq/%s%d/%s%s' % (space.name, space.max_len, cfgname, '/structures' if structure_path else '')
        self.rule = ('all programs of space %s up to length %d, modifiers applied; non-trivial = at least two measurements are listed' % (space.name, space.max_len))

    def shards(self, tier):
        return self.space.shards()

    def cases(self, tier, shard):
        return self.space.cases(shard)

    def describe(self, tier):
        return self.space.describe()

    def run(self, prog):
        res = self._run(prog, False)
        if self.structure_path and not res.fails and any(e[0] == 'sub' for e in prog):
            # the same program with every block handed to add as a structure (ICircuitCompositeOperation) instead of a DeclarativeCircuit
            r2 = self._run(prog, True)
            if r2.outcome != res.outcome:
                res.fail('C07-structure-path', 'program %r: indices differ when blocks are added as structures: %r vs %r' % (prog, r2.outcome, res.outcome))
            for c, d in r2.fails:
                res.fail(c, 'blocks added as structures: ' + d)
        return res

    def _run(self, prog, via_structure):
        res = Res()
        with world.override(world.cfg_by_name(self.cfgname)):
            b = build(prog, via_structure=via_structure)
            un = b.circ.apply_modifiers()
            ops = un.operations
            meas = [o for o in ops if hasattr(o, 'acquisition_index')]
            circ_idx = [o.circuit_level_acquisition_index for o in meas]
            if circ_idx != list(range(len(meas))):
                res.fail('C07-circuit-level', 'program %r: circuit-level indices in listing order are %r, expected 0..%d' % (prog, circ_idx, len(meas) - 1))
            counters = {}
            want_q = []
            for o in meas:
                q = o.acquisition_identifier.qubit_index
                want_q.append(counters.get(q, 0))
                counters[q] = counters.get(q, 0) + 1
            got_q = [o.acquisition_index for o in meas]
            if got_q != want_q:
                res.fail('C07-qubit-level', 'program %r: per-qubit indices in listing order are %r, expected %r' % (prog, got_q, want_q))
            # filters are asked with the tags as they were *given* when the measurements were created (a tag is an arbitrary
            # string; how the library stores it is its business): per (qubit, tag) as many indices as measurements were
            # created with it, together a partition of the qubit's indices
            stored = {(o.acquisition_identifier.qubit_index, o.acquisition_identifier.tag) for o in meas}
            given = given_tags(prog)
            tags = sorted(stored) if stored == set(given) else []
            for q in QUBITS:
                union = []
                for (tq, tag), cnt in sorted(given.items()):
                    if tq != q:
                        continue
                    got_t = [int(x) for x in un.get_acquisition_indices(AcquisitionTag(q, tag))]
                    if len(got_t) != cnt:
                        res.fail('C07-by-tag', 'program %r: %d measurements of qubit %d were created with tag %r, the filter returns %r' % (prog, cnt, q, tag, got_t))
                    union.extend(got_t)
                allq = [i for o, i in zip(meas, want_q) if o.acquisition_identifier.qubit_index == q]
                if sorted(union) != allq:
                    res.fail('C07-partition', 'program %r: the given tags do not partition the indices of qubit %d: %r vs %r' % (prog, q, sorted(union), allq))
            for q in QUBITS:
                want = [i for o, i in zip(meas, want_q) if o.acquisition_identifier.qubit_index == q]
                got = [int(x) for x in un.get_acquisition_indices(q)]
                if got != want:
                    res.fail('C07-by-qubit', 'program %r: get_acquisition_indices(%d) = %r, expected %r' % (prog, q, got, want))
                union = []
                for (tq, tag) in tags:
                    if tq != q:
                        continue
                    want_t = [i for o, i in zip(meas, want_q) if o.acquisition_identifier.qubit_index == q and o.acquisition_identifier.tag == tag]
                    got_t = [int(x) for x in un.get_acquisition_indices(AcquisitionTag(q, tag))]
                    if got_t != want_t:
                        res.fail('C07-by-tag', 'program %r: get_acquisition_indices((%d,%r)) = %r, expected %r' % (prog, q, tag, got_t, want_t))
                    union.extend(got_t)
                if sorted(union) != want or len(set(union)) != len(union):
                    res.fail('C07-partition', 'program %r: tags do not partition the indices of qubit %d: %r vs %r' % (prog, q, sorted(union), want))
            # an unused (qubit, tag) filter returns nothing
            if len(un.get_acquisition_indices(AcquisitionTag(0, 'zz'))) != 0:
                res.fail('C07-by-tag', 'program %r: filter on an unused tag returns indices' % (prog,))
            # measurement record order of the exported program
            rec = []
            for ins in to_stim(un).flattened():
                if ins.name in ('M', 'MZ'):
                    rec.extend(t.value for t in ins.targets_copy())
            want_rec = [o.acquisition_identifier.qubit_index for o in meas]
            if rec != want_rec:
                res.fail('C07-record-order', 'program %r: measured qubits of the exported program %r, listing order %r' % (prog, rec, want_rec))
            # monotone in start time
            mono = 'n/a'
            if overlap_free(ops):
                mono = 'checked'
                for q in QUBITS:
                    ms = [(o.acquisition_index, o.start_time) for o in meas if o.acquisition_identifier.qubit_index == q]
                    ms.sort()
                    if any(ms[i][1] > ms[i + 1][1] + EPS for i in range(len(ms) - 1)):
                        res.fail('C07-monotone', 'program %r: qubit %d indices do not increase with start time: %r' % (prog, q, ms))
            res.extra = {'monotone-' + mono: 1}
            res.outcome = (tuple(circ_idx), tuple(got_q), tuple(want_rec), tuple(round(o.start_time, 9) for o in meas))
            res.states = [canonical_state(un)]
        res.transitions = count_events(prog) + 1
        res.validated = 1
        res.trivial = len(meas) < 2
        return res


def given_tags(prog, mult=1):
    """{(qubit, tag): number of measurements created with it, counting repetitions}"""
    out = {}
    for e in prog:
        if e[0] == 'op' and e[1] == 'M':
            key = (e[2], e[4] if len(e) > 4 else '')
            out[key] = out.get(key, 0) + mult
        elif e[0] == 'sub':
            for k, v in given_tags(e[2], mult * rep_count(e[1])).items():
                out[k] = out.get(k, 0) + v
    return {k: v for k, v in out.items() if v > 0}


class DeepChainSpace(Space):
    """Repeated blocks whose measured qubit carries a chain of three measurements next to one long operation on another
    qubit (under H: 3 x readout 3 < microwave 11): the latest-ending relation leaf of a repetition is then shallower in
    relation steps than the end of the chain, which is where listing order and time order can part."""
    name = 'QD'

    def __init__(self, max_len, reps=(2, 3), modes=('own', 'top')):
        super().__init__(max_len)
        long_op = ('op', 'X', 1, None)
        bodies = []
        for tags in itertools.product(('', 'a'), repeat=3):
            chain = [('op', 'M', 0, None, t) for t in tags]
            for pos in range(4):
                bodies.append(tuple(chain[:pos] + [long_op] + chain[pos:]))
        s = [('op', 'M', 0, None, ''), ('op', 'M', 1, None, 'a'), ('op', 'X', 0, None)]
        s += [('sub', r, body, mode) for body in bodies for r in reps for mode in modes]
        self._s = s

    def steps(self, i):
        return self._s


def families(tier):
    if tier == 'quick':
        # tags are arbitrary strings: one of them has upper-case characters and a trailing blank, and 'a' / 'A' are different tags
        return [AcqFamily(AcqSpace(2, tags=('', 'Ab '))), AcqFamily(AcqSpace(1, two_level=True, reps=(1, 2, 3), tags=('a', 'A')), 'D', structure_path=True),
                AcqFamily(AcqSpace(2, tags=('',), reps=(2,), extra=(('X', 0),)), 'H', structure_path=True),
                AcqFamily(DeepChainSpace(2, reps=(2,), modes=('own',)), 'H')]
    return [AcqFamily(AcqSpace(2, tags=('', 'a', 'b'), reps=(1, 2, ('reg', 3)))), AcqFamily(AcqSpace(2, tags=('', 'a'), two_level=True, extra=(('X', 0),), reps=(1, 2)), 'D'),
            AcqFamily(AcqSpace(3, tags=('', 'a'), reps=(2,), extra=(), modes=('own',)), 'H'),
            AcqFamily(AcqSpace(2, tags=('', 'a'), reps=(1, 2), extra=(('X', 0),)), 'H', structure_path=True),
            AcqFamily(DeepChainSpace(2), 'H')]


def signature(f):
    return f['code']
