"""C17 — declared and derived gate-sequence layouts are executable (exhaustive)."""
import itertools

from qce_circuit.connectivity.connectivity_surface_code import Surface17Layer
from qce_circuit.connectivity.intrf_channel_identifier import EdgeIDObj, QubitIDObj, FeedlineIDObj
from qce_circuit.connectivity.intrf_connectivity_surface_code import FrequencyGroup
from qce_circuit.library.repetition_code.repetition_code_connectivity import Repetition9Code, Repetition9Round6Code, Repetition5Round4Code
from qce_circuit.library.repetition_code.circuit_components import RepetitionCodeDescription, CompositeRepetitionCodeDescription
from mc.engine import Family, Res
from mc.ref import freq

PROP = 'C17'
LEVEL = 'exploration'
ASSUMPTIONS = [
    'shipped tables: Surface-17 connectivity and the three repetition layouts; reference device model mc/ref/freq.py',
    'derived descriptions: all subsets up to a size (thorough: all subsets) of the qubits that take part in a gate of the layout, all orderings of small subsets, single/pair exclusions for composite descriptions',
    'a layer is executable in the sense of the statement (device edges, distinct qubits, no park-and-gate, required parking present, parity edges once); parks beyond the required ones are allowed',
]
LAYOUTS = {'Repetition9Code': Repetition9Code, 'Repetition9Round6Code': Repetition9Round6Code, 'Repetition5Round4Code': Repetition5Round4Code}
LEVELS = {FrequencyGroup.LOW: freq.LOW, FrequencyGroup.MID: freq.MID, FrequencyGroup.HIGH: freq.HIGH}


def pair(e):
    return tuple(sorted(q.id for q in e.qubit_ids))


def layer_gates(layer):
    return [pair(op.identifier) for op in layer.gate_operations]


def layer_parks(layer):
    return [op.identifier.id for op in layer.park_operations]


def judge_layer(res, label, gates, parks, require_all_device_parks=True, involved=None):
    for g in gates:
        if g not in freq.EDGES:
            res.fail('C17-not-an-edge', '%s: gate %r is not a device edge' % (label, g))
    qs = [q for g in gates for q in g]
    if len(set(qs)) != len(qs):
        res.fail('C17-qubit-in-two-gates', '%s: gates %r share a qubit' % (label, gates))
    both = [p for p in parks if p in qs]
    if both:
        res.fail('C17-park-and-gate', '%s: %r parked and gated in the same layer' % (label, both))
    if all(g in freq.EDGES for g in gates) and len(set(qs)) == len(qs):
        need = [q for q in freq.QUBITS if freq.requires_parking(q, gates)]
        if involved is not None:
            need = [q for q in need if q in involved]
        missing = [q for q in need if q not in parks]
        if missing:
            res.fail('C17-park-missing', '%s: gates %r require parking of %r, parked are %r' % (label, gates, missing, parks))


class TableFamily(Family):
    name = 'shipped-tables'
    rule = ('Surface-17 tables against the reference device (one case per qubit / feedline / parity group) and every layer of the three shipped repetition layouts plus one coverage case per layout; '
            'non-trivial = the case involves at least one edge')

    def shards(self, tier):
        return ['device'] + list(LAYOUTS)

    def cases(self, tier, shard):
        if shard == 'device':
            yield ('device', 'sets')
            for q in freq.QUBITS:
                yield ('device', 'qubit', q)
            for a in freq.PLAQUETTES:
                yield ('device', 'parity', a)
            for f in freq.FEEDLINES:
                yield ('device', 'feedline', f)
        else:
            lay = LAYOUTS[shard]()
            for i in range(lay.gate_sequence_count):
                yield (shard, 'layer', i)
            yield (shard, 'coverage')

    def run(self, case):
        res = Res()
        L = Surface17Layer()
        res.transitions = 1
        if case[0] == 'device':
            kind = case[1]
            if kind == 'sets':
                qs = [q.id for q in L.qubit_ids]
                es = [pair(e) for e in L.edge_ids]
                if sorted(qs) != freq.QUBITS or len(set(qs)) != 17:
                    res.fail('C17-device-qubits', 'device qubits %r' % (sorted(qs),))
                if sorted(es) != freq.EDGES or len(set(es)) != 24:
                    res.fail('C17-device-edges', 'device edges differ from the 24 ancilla-data couplings: %r' % (sorted(set(es) ^ set(freq.EDGES)),))
                anc = sorted(q.id for q in L.ancilla_qubit_ids)
                dat = sorted(q.id for q in L.data_qubit_ids)
                if anc != sorted(freq.PLAQUETTES) or dat != sorted(set(freq.QUBITS) - set(freq.PLAQUETTES)):
                    res.fail('C17-device-roles', 'ancilla %r data %r' % (anc, dat))
                res.outcome = (len(qs), len(es))
            elif kind == 'qubit':
                q = QubitIDObj(case[2])
                nb = sorted(x.id for x in L.get_neighbors(q))
                if nb != sorted(freq.ADJ[case[2]]):
                    res.fail('C17-device-neighbours', '%s: neighbours %r, reference %r' % (case[2], nb, sorted(freq.ADJ[case[2]])))
                eg = sorted(pair(e) for e in L.get_edges(q))
                if eg != sorted(e for e in freq.EDGES if case[2] in e):
                    res.fail('C17-device-edges-of', '%s: edges %r' % (case[2], eg))
                lv = LEVELS[L.get_frequency_group_identifier(q).id]
                if lv != freq.LEVEL[case[2]]:
                    res.fail('C17-device-frequency', '%s: frequency group %r, reference %r' % (case[2], lv, freq.LEVEL[case[2]]))
                fl = L.get_connected_feedline(q).id
                if case[2] not in freq.FEEDLINES.get(fl, []):
                    res.fail('C17-device-feedline', '%s: feedline %r' % (case[2], fl))
                if not L.contains(q) or sum(1 for x in L.qubit_ids if x == q) != 1:
                    res.fail('C17-device-contains', '%s' % case[2])
                res.outcome = (case[2], tuple(nb), lv, fl)
            elif kind == 'parity':
                groups = [g for g in L.parity_group_x + L.parity_group_z if g.ancilla_id.id == case[2]]
                if len(groups) != 1:
                    res.fail('C17-device-parity', '%s: %d parity groups' % (case[2], len(groups)))
                else:
                    g = groups[0]
                    if sorted(d.id for d in g.data_ids) != sorted(freq.PLAQUETTES[case[2]]):
                        res.fail('C17-device-parity', '%s: data qubits %r' % (case[2], [d.id for d in g.data_ids]))
                    if sorted(pair(e) for e in g.edge_ids) != sorted(tuple(sorted((case[2], d))) for d in freq.PLAQUETTES[case[2]]):
                        res.fail('C17-device-parity-edges', '%s' % case[2])
                    want_x = case[2].startswith('X')
                    if (g in L.parity_group_x) != want_x:
                        res.fail('C17-device-parity-type', '%s' % case[2])
                    found = L.get_parity_group(QubitIDObj(case[2]))
                    if g not in found:
                        res.fail('C17-device-parity-lookup', '%s' % case[2])
                    res.outcome = (case[2], tuple(sorted(d.id for d in g.data_ids)))
            else:
                got = sorted(q.id for q in L.get_connected_qubits(FeedlineIDObj(case[2])))
                if got != sorted(freq.FEEDLINES[case[2]]):
                    res.fail('C17-device-feedline', '%s: %r' % (case[2], got))
                res.outcome = (case[2], tuple(got))
            res.trivial = case[1] in ('feedline',)
            return res
        lay = LAYOUTS[case[0]]()
        if case[1] == 'layer':
            layer = lay.get_gate_sequence_at_index(case[2])
            gates, parks = layer_gates(layer), layer_parks(layer)
            judge_layer(res, '%s layer %d' % (case[0], case[2]), gates, parks)
            res.extra = {'layers-with-frequency-accepted-gates': int(freq.accepted(gates))}
            res.outcome = (tuple(gates), tuple(parks))
            res.trivial = not gates
        else:
            seen = [g for i in range(lay.gate_sequence_count) for g in layer_gates(lay.get_gate_sequence_at_index(i))]
            parity_edges = [pair(e) for pg in lay.parity_group_x + lay.parity_group_z for e in pg.edge_ids]
            for e in parity_edges:
                if seen.count(e) != 1:
                    res.fail('C17-parity-edge-count', '%s: parity edge %r exercised %d times in one sequence' % (case[0], e, seen.count(e)))
            for e in seen:
                if e not in parity_edges:
                    res.fail('C17-gate-outside-parity', '%s: gate %r belongs to no parity group of the layout' % (case[0], e))
            inv = sorted(q.id for q in lay.involved_qubit_ids)
            want_inv = sorted({q for i in range(lay.gate_sequence_count) for q in
                               [x for g in layer_gates(lay.get_gate_sequence_at_index(i)) for x in g] + layer_parks(lay.get_gate_sequence_at_index(i))})
            if inv != want_inv:
                res.fail('C17-involved', '%s: involved qubits %r, layers mention %r' % (case[0], inv, want_inv))
            res.outcome = tuple(sorted(seen))
            res.trivial = False
        return res


def pool_of(lay):
    out = []
    for i in range(lay.gate_sequence_count):
        for g in lay.get_gate_sequence_at_index(i).gate_operations:
            for q in g.identifier.qubit_ids:
                if q.id not in out:
                    out.append(q.id)
    return out


class DerivedFamily(Family):
    def __init__(self, max_size, perm_size, all_subsets=False):
        self.max_size, self.perm_size, self.all_subsets = max_size, perm_size, all_subsets
        self.name = 'from-connectivity'
        self.rule = ('RepetitionCodeDescription.from_connectivity for %s of the gate-taking qubits of each shipped layout, all orderings for size <= %d, refocusing flag irrelevant; '
                     'non-trivial = at least one gate is kept' % ('all subsets' if all_subsets else 'all subsets of size <= %d' % max_size, perm_size))

    def shards(self, tier):
        out = []
        for name, cls in LAYOUTS.items():
            pool = pool_of(cls())
            sizes = range(1, (len(pool) if self.all_subsets else self.max_size) + 1)
            for k in sizes:
                for first in range(len(pool)) if (k > 1) else [None]:
                    out.append((name, k, first))
        return out

    def cases(self, tier, shard):
        name, k, first = shard
        pool = pool_of(LAYOUTS[name]())
        for comb in itertools.combinations(range(len(pool)), k):
            if first is not None and comb[0] != first:
                continue
            sub = tuple(pool[i] for i in comb)
            if k <= self.perm_size:
                for perm in itertools.permutations(sub):
                    yield (name, perm)
            else:
                yield (name, sub)
            if k <= 3:
                yield (name, sub, 'wide-map')   # caller supplies a device-wide qubit -> channel map

    def describe(self, tier):
        return {n: len(pool_of(c())) for n, c in LAYOUTS.items()}

    def run(self, case):
        name, sub = case[0], case[1]
        wide = len(case) > 2
        res = Res()
        lay = LAYOUTS[name]()
        ids = [QubitIDObj(q) for q in sub]
        n = len(sub)
        if wide:
            index_of = {q: 100 + i for i, q in enumerate(freq.QUBITS)}
            d = RepetitionCodeDescription.from_connectivity(ids, lay, qubit_index_map={QubitIDObj(q): i for q, i in index_of.items()})
        else:
            index_of = {q: i for i, q in enumerate(sub)}
            d = RepetitionCodeDescription.from_connectivity(ids, lay)
        cmap = d.circuit_channel_map
        if sorted(cmap.keys()) != sorted(index_of[q] for q in sub) or sorted(v.id for v in cmap.values()) != sorted(sub):
            res.fail('C17-index-map', '%s %r: channel map %r is not a bijection between the involved qubits and their circuit indices' % (name, sub, {k: v.id for k, v in cmap.items()}))
        for q in sub:
            if d.get_index(QubitIDObj(q)) != index_of[q] or d.get_element(index_of[q]).id != q:
                res.fail('C17-index-order', '%s %r: qubit %s is not at circuit index %d' % (name, sub, q, index_of[q]))
        if sorted(x.id for x in d.data_qubit_ids) != sorted(q for q in sub if q not in freq.PLAQUETTES) or sorted(x.id for x in d.ancilla_qubit_ids) != sorted(q for q in sub if q in freq.PLAQUETTES):
            res.fail('C17-roles', '%s %r: data %r ancilla %r' % (name, sub, [x.id for x in d.data_qubit_ids], [x.id for x in d.ancilla_qubit_ids]))
        if len(d.gate_sequences) != lay.gate_sequence_count:
            res.fail('C17-layer-count', '%s %r: %d layers, layout has %d' % (name, sub, len(d.gate_sequences), lay.gate_sequence_count))
        kept_total = 0
        out = []
        for i, layer in enumerate(d.gate_sequences):
            full = lay.get_gate_sequence_at_index(i)
            want = [g for g in layer_gates(full) if all(q in sub for q in g)]
            got = layer_gates(layer)
            if sorted(got) != sorted(want):    # the order of the gates within a layer is not prescribed
                res.fail('C17-kept-gates', '%s %r layer %d: kept %r, expected exactly the layout gates with both qubits involved %r' % (name, sub, i, got, want))
            kept_total += len(got)
            parks = layer_parks(layer)
            judge_layer(res, '%s %r layer %d' % (name, sub, i), got, parks)
            gi = d.get_gate_sequence_indices(i)
            want_gi = [(index_of[op.identifier.qubit_ids[0].id], index_of[op.identifier.qubit_ids[1].id]) for op in layer.gate_operations
                       if all(q.id in sub for q in op.identifier.qubit_ids)]
            if sorted(tuple(sorted(x)) for x in (gi or [])) != sorted(tuple(sorted(x)) for x in want_gi):
                res.fail('C17-gate-indices', '%s %r layer %d: gate indices %r expected %r' % (name, sub, i, gi, want_gi))
            pi = d.get_park_sequence_indices(i)
            need = sorted(index_of[q] for q in sub if freq.requires_parking(q, got)) if freq.disjoint(got) else []
            if any(p not in [index_of[q] for q in sub] for p in pi):
                res.fail('C17-park-indices', '%s %r layer %d: park index outside the circuit: %r' % (name, sub, i, pi))
            if any(p not in pi for p in need):
                res.fail('C17-park-indices-missing', '%s %r layer %d: park indices %r, required %r' % (name, sub, i, pi, need))
            gated = {x for g in gi or [] for x in g}
            if any(p in gated for p in pi):
                res.fail('C17-park-and-gate', '%s %r layer %d: index parked and gated' % (name, sub, i))
            out.append((tuple(got), tuple(sorted(pi))))
        if d.get_gate_sequence_indices(lay.gate_sequence_count) is not None or d.get_park_sequence_indices(-1) is not None:
            res.fail('C17-out-of-range', '%s %r: indices for a layer that does not exist' % (name, sub))
        res.outcome = (name, sub, tuple(out))
        res.transitions = 1
        res.trivial = kept_total == 0
        return res


class CompositeFamily(Family):
    name = 'composite-exclusions'
    rule = ('CompositeRepetitionCodeDescription over each shipped layout (all gate-taking qubits involved): every single and every pair of excluded gate edges / gate qubits, '
            'with and without only-required parking; non-trivial = an exclusion removes at least one gate')

    def shards(self, tier):
        return [(n, mode) for n in LAYOUTS for mode in ('edges', 'qubits')]

    def cases(self, tier, shard):
        name, mode = shard
        lay = LAYOUTS[name]()
        pool = pool_of(lay)
        if mode == 'edges':
            items = sorted({g for i in range(lay.gate_sequence_count) for g in layer_gates(lay.get_gate_sequence_at_index(i))})
        else:
            items = pool
        yield (name, mode, (), False)
        yield (name, mode, (), True)
        for k in (1, 2):
            for ex in itertools.combinations(items, k):
                for only in (False, True):
                    yield (name, mode, ex, only)

    def run(self, case):
        name, mode, ex, only = case
        res = Res()
        lay = LAYOUTS[name]()
        pool = pool_of(lay)
        ids = [QubitIDObj(q) for q in pool]
        base = RepetitionCodeDescription.from_connectivity(ids, lay)
        kw = {}
        if mode == 'edges':
            kw['_exclude_gate_edge_ids'] = [EdgeIDObj(QubitIDObj(a), QubitIDObj(b)) for a, b in ex]
        else:
            kw['_exclude_gate_qubit_ids'] = [QubitIDObj(q) for q in ex]
        d = CompositeRepetitionCodeDescription(_base_description=base, _qubit_index_map={q: i for i, q in enumerate(ids)}, _connectivity=lay,
                                               _only_required_parking_operations=only, **kw)
        removed = 0
        out = []
        base_before = [(layer_gates(l), layer_parks(l)) for l in base.gate_sequences]
        lay_before = [(layer_gates(lay.get_gate_sequence_at_index(i)), layer_parks(lay.get_gate_sequence_at_index(i))) for i in range(lay.gate_sequence_count)]
        first_read = [(layer_gates(l), layer_parks(l)) for l in d.gate_sequences]
        second_read = [(layer_gates(l), layer_parks(l)) for l in d.gate_sequences]
        if first_read != second_read:
            res.fail('C17-composite-unstable', '%s excluding %s %r: reading the layers twice gives different answers' % (name, mode, ex))
        if [(layer_gates(l), layer_parks(l)) for l in base.gate_sequences] != base_before or \
                [(layer_gates(lay.get_gate_sequence_at_index(i)), layer_parks(lay.get_gate_sequence_at_index(i))) for i in range(lay.gate_sequence_count)] != lay_before:
            res.fail('C17-composite-changes-base', '%s excluding %s %r: reading the composite description changed the description / layout it was derived from' % (name, mode, ex))
        for i, layer in enumerate(d.gate_sequences):
            base_layer = base.gate_sequences[i]
            if mode == 'edges':
                want = [g for g in layer_gates(base_layer) if g not in [tuple(sorted(e)) for e in ex]]
            else:
                want = [g for g in layer_gates(base_layer) if not any(q in ex for q in g)]
            got = layer_gates(layer)
            removed += len(layer_gates(base_layer)) - len(got)
            if sorted(got) != sorted(want):
                res.fail('C17-composite-gates', '%s excluding %s %r: layer %d keeps %r, expected %r' % (name, mode, ex, i, got, want))
            parks = layer_parks(layer)
            judge_layer(res, '%s excluding %s %r (only required=%r) layer %d' % (name, mode, ex, only, i), got, parks)
            if only and freq.disjoint(got):
                need = sorted(q for q in freq.QUBITS if freq.requires_parking(q, got))
                if sorted(parks) != need:
                    res.fail('C17-composite-required-parks', '%s excluding %s %r layer %d: parks %r, required exactly %r' % (name, mode, ex, i, sorted(parks), need))
            out.append((tuple(got), tuple(sorted(parks))))
        cmap = d.circuit_channel_map
        if sorted(cmap.keys()) != list(range(len(pool))):
            res.fail('C17-index-map', '%s composite: channel map keys %r' % (name, sorted(cmap.keys())))
        res.outcome = (case[:3], only, tuple(out))
        res.transitions = 1
        res.trivial = removed == 0
        return res


def families(tier):
    if tier == 'quick':
        return [TableFamily(), DerivedFamily(4, 3), CompositeFamily()]
    return [TableFamily(), DerivedFamily(0, 4, all_subsets=True), CompositeFamily()]


def signature(f):
    return f['code']
