"""C19 — channel and identifier matching behave as overlap / identity relations (exhaustive finite relations)."""
import itertools
import json
import os
import subprocess
import sys

from qce_circuit.structure.intrf_circuit_operation import ChannelIdentifier, QubitChannel
from qce_circuit.connectivity.intrf_channel_identifier import QubitIDObj, EdgeIDObj
from qce_circuit.utilities.array_manipulation import unique_in_order
from mc.engine import Family, Res

PROP = 'C19'
LEVEL = 'exploration'
ASSUMPTIONS = [
    'finite domains: qubits {0,1,300} x the four channel kinds; the 17 Surface-17 names plus adversarial names (longer, lower-case, empty, trailing blank, hyphenated); sequences up to length 6 over 3 letters',
    'edges between a qubit and itself are not edges and are excluded',
    'the identifier part is repeated in fresh interpreters under three further PYTHONHASHSEED values',
]
CHANNELS = [QubitChannel.READOUT, QubitChannel.MICROWAVE, QubitChannel.FLUX, QubitChannel.ALL]
NAMES = ['D1', 'D2', 'D3', 'D4', 'D5', 'D6', 'D7', 'D8', 'D9', 'X1', 'X2', 'X3', 'X4', 'Z1', 'Z2', 'Z3', 'Z4', 'D10', 'd1', '', 'D1 ', 'QL-3', 'chip0-D1', 'D1-X1']


def ref_match(a, b):
    return a[0] == b[0] and (a[1] == b[1] or QubitChannel.ALL in (a[1], b[1]))


class ChannelFamily(Family):
    name = 'channel-identifiers'
    rule = ('all ordered triples of channel identifiers over qubits {0,1,300} x {READOUT, MICROWAVE, FLUX, ALL}: ==, !=, symmetry and list membership against the reference relation; '
            'non-trivial = the triple contains a matching pair of distinct identifiers')

    def shards(self, tier):
        return list(range(12))

    def cases(self, tier, shard):
        dom = [(q, c) for q in (0, 1, 300) for c in CHANNELS]
        a = dom[shard]
        for b in dom:
            for c in dom:
                yield (a[0], a[1].name, b[0], b[1].name, c[0], c[1].name)

    def run(self, case):
        res = Res()
        a, b, c = [(case[i], QubitChannel[case[i + 1]]) for i in (0, 2, 4)]
        # qubit indices are built as fresh int objects (identity of small ints is an interpreter detail, 300 is not cached)
        A, B, C = [ChannelIdentifier(_id=int(str(x[0])), _channel=x[1]) for x in (a, b, c)]
        for (x, X), (y, Y) in (((a, A), (b, B)), ((b, B), (a, A)), ((a, A), (c, C)), ((b, B), (c, C))):
            want = ref_match(x, y)
            if (X == Y) != want:
                res.fail('C19-channel-eq', '%r == %r is %r, reference relation says %r' % (X, Y, X == Y, want))
            if (X != Y) != (not want):
                res.fail('C19-channel-ne', '%r != %r inconsistent with ==' % (X, Y))
            if (X == Y) != (Y == X):
                res.fail('C19-channel-symmetry', '%r / %r' % (X, Y))
        want_in = ref_match(a, b) or ref_match(a, c)
        if (A in [B, C]) != want_in:
            res.fail('C19-channel-in', '%r in [%r, %r] is %r, expected %r' % (A, B, C, A in [B, C], want_in))
        if any(X == 'x' or X == (X.id, X.channel) for X in (A,)):
            res.fail('C19-channel-foreign', '%r equals a non-identifier' % (A,))
        res.outcome = (A == B, A == C, B == C, A in [B, C])
        res.trivial = not ((a != b and ref_match(a, b)) or (a != c and ref_match(a, c)) or (b != c and ref_match(b, c)))
        res.transitions = 1
        return res


def identifier_failures(names):
    """Qubit and edge identifiers over all ordered pairs (of pairs); returns (failures, evaluations, outcome digest)."""
    fails = []
    n = 0
    qs = {x: QubitIDObj(x) for x in names}
    for x in names:
        for y in names:
            n += 1
            eq = qs[x] == QubitIDObj(y)
            if eq != (x == y):
                fails.append(('C19-qubit-eq', '%r vs %r: == is %r' % (x, y, eq)))
            if x == y and hash(qs[x]) != hash(QubitIDObj(y)):
                fails.append(('C19-qubit-hash', '%r: equal identifiers with different hashes' % (x,)))
        if qs[x] == x:
            fails.append(('C19-qubit-foreign', '%r equals its bare name' % (x,)))
    pairs = [(x, y) for x in names for y in names if x != y]
    edges = {p: EdgeIDObj(QubitIDObj(p[0]), QubitIDObj(p[1])) for p in pairs}
    sig = 0
    for p in pairs:
        e = edges[p]
        if e == p or e == qs[p[0]]:
            fails.append(('C19-edge-foreign', '%r equals a non-edge' % (e,)))
        for r in pairs:
            n += 1
            f = EdgeIDObj(QubitIDObj(r[0]), QubitIDObj(r[1]))
            want = set(p) == set(r)
            eq = e == f
            if eq != want:
                fails.append(('C19-edge-eq', '%r == %r is %r, expected %r' % (e, f, eq, want)))
            if (f == e) != eq:
                fails.append(('C19-edge-symmetry', '%r / %r' % (e, f)))
            if want and hash(e) != hash(f):
                fails.append(('C19-edge-hash', '%r and %r are equal but hash differently' % (e, f)))
            if want:
                sig += 1
        # set / dict behaviour under reversal
        if len({e, EdgeIDObj(QubitIDObj(p[1]), QubitIDObj(p[0]))}) != 1:
            fails.append(('C19-edge-set', '%r and its reversal are two set members' % (e,)))
    return fails, n, sig


class IdentifierFamily(Family):
    name = 'qubit-and-edge-identifiers'
    rule = ('all ordered pairs of names from the 17 device qubits plus adversarial names (D10, d1, empty, trailing blank) for qubit identifiers, all ordered pairs of edges over them for edge '
            'identifiers; one case per first edge endpoint; non-trivial = the case contains equal-but-distinct objects')

    def shards(self, tier):
        return list(range(len(NAMES)))

    def cases(self, tier, shard):
        yield NAMES[shard]

    def run(self, case):
        res = Res()
        # all edges starting at `case` against all edges
        names = NAMES
        q0 = QubitIDObj(case)
        for y in names:
            eq = q0 == QubitIDObj(y)
            if eq != (case == y):
                res.fail('C19-qubit-eq', '%r vs %r: == is %r' % (case, y, eq))
            if case == y and hash(q0) != hash(QubitIDObj(y)):
                res.fail('C19-qubit-hash', '%r' % (case,))
        if q0 == case:
            res.fail('C19-qubit-foreign', '%r equals its bare name' % (case,))
        n = 0
        for y in names:
            if y == case:
                continue
            e = EdgeIDObj(QubitIDObj(case), QubitIDObj(y))
            if len({e, EdgeIDObj(QubitIDObj(y), QubitIDObj(case))}) != 1:
                res.fail('C19-edge-set', '%r and its reversal are two set members' % (e,))
            if e == (case, y) or e == q0:
                res.fail('C19-edge-foreign', '%r equals a non-edge' % (e,))
            for r0 in names:
                for r1 in names:
                    if r0 == r1:
                        continue
                    n += 1
                    f = EdgeIDObj(QubitIDObj(r0), QubitIDObj(r1))
                    want = {case, y} == {r0, r1}
                    eq = e == f
                    if eq != want:
                        res.fail('C19-edge-eq', '%r == %r is %r, expected %r' % (e, f, eq, want))
                    if (f == e) != eq:
                        res.fail('C19-edge-symmetry', '%r / %r' % (e, f))
                    if want and hash(e) != hash(f):
                        res.fail('C19-edge-hash', '%r and %r are equal but hash differently' % (e, f))
        res.outcome = (case, n)
        res.transitions = n
        res.trivial = False
        return res


class UniqueFamily(Family):
    name = 'unique-in-order'
    rule = ('all sequences of length <= 6 over a 3-letter alphabet, and all sequences of length <= 4 over 3 edges and their reversals: result keeps exactly the first occurrences, in order; '
            'non-trivial = the sequence contains a duplicate')

    def shards(self, tier):
        return [('letters', L) for L in range(0, 7)] + [('edges', L) for L in range(0, 5)]

    def cases(self, tier, shard):
        kind, L = shard
        dom = 'abc' if kind == 'letters' else range(6)
        for s in itertools.product(dom, repeat=L):
            yield (kind,) + tuple(s)

    def run(self, case):
        res = Res()
        kind, seq = case[0], case[1:]
        if kind == 'letters':
            items = list(seq)
        else:
            base = [('D1', 'X1'), ('D2', 'X1'), ('D1', 'Z1')]
            allv = base + [(b, a) for a, b in base]
            items = [EdgeIDObj(QubitIDObj(allv[i][0]), QubitIDObj(allv[i][1])) for i in seq]
        want = []
        for x in items:
            if not any(x == y for y in want):
                want.append(x)
        got = unique_in_order(items)
        if len(got) != len(want) or any(g is not w for g, w in zip(got, want)):
            res.fail('C19-unique', 'unique_in_order(%r) = %r, expected first occurrences %r' % (items, got, want))
        if unique_in_order(iter(items)) != got:
            res.fail('C19-unique-iterator', 'different result for an iterator input')
        res.outcome = (kind, tuple(repr(g) for g in got))
        res.trivial = len(want) == len(items)
        res.transitions = 1
        return res


class HashSeedFamily(Family):
    name = 'hash-seeds'
    rule = 'the whole identifier part re-run in a fresh interpreter under PYTHONHASHSEED in {1, 2, 4242}; non-trivial = always (each run covers all pairs of edges)'

    def shards(self, tier):
        return [1, 2, 4242]

    def cases(self, tier, shard):
        yield shard

    def run(self, seed):
        res = Res()
        env = dict(os.environ)
        env['PYTHONHASHSEED'] = str(seed)
        out = subprocess.run([sys.executable, '-W', 'ignore', '-c',
                              'import json; from mc.props.c19 import identifier_failures, NAMES; f, n, s = identifier_failures(NAMES); print(json.dumps([f[:20], n, s]))'],
                             env=env, capture_output=True, text=True, timeout=600)
        if out.returncode != 0:
            res.fail('C19-subprocess', out.stderr[-400:])
            return res
        fails, n, sig = json.loads(out.stdout.strip().splitlines()[-1])
        for code, detail in fails:
            res.fail(code, 'PYTHONHASHSEED=%d: %s' % (seed, detail))
        res.outcome = (seed, n, sig)
        res.transitions = n
        res.trivial = False
        return res


def families(tier):
    return [ChannelFamily(), IdentifierFamily(), UniqueFamily(), HashSeedFamily()]


def signature(f):
    return f['code']
