"""C13 — index kernels agree with the experiment circuit they describe (exhaustive input box)."""
import numpy as np

from qce_circuit.language import InitialStateContainer, InitialStateEnum
from qce_circuit.library.repetition_code.circuit_components import RepetitionCodeDescription
from qce_circuit.library.repetition_code.circuit_constructors import construct_repetition_code_multi_round_circuit
from qce_circuit.structure.acquisition_indexing.kernel_repetition_code import RepetitionExperimentKernel
from qce_circuit.structure.acquisition_indexing.intrf_stabilizer_index_kernel import StateKey
from qce_circuit.structure.intrf_acquisition_operation import AcquisitionTag
from mc.engine import Family, Res
from mc.props.c12 import rounds_lists
from mc.ref.kernel import cycle_layout

PROP = 'C13'
LEVEL = 'exploration'
ASSUMPTIONS = [
    'input box: all lists of distinct round counts from {0..R} in any order x distances x three state patterns (bounds under coverage.bounds); heralded initialisation and qutrit calibration points as the constructor builds them',
    'two encodings are compared with each other (circuit tags vs kernel getters, experiment_repetitions = 1) and both with the reference layout mc/ref/kernel.py',
]
S = InitialStateEnum


def flat(a):
    return sorted(int(x) for x in np.asarray(a).flatten().tolist())


LAYOUT_CHAINS = {2: ['D4', 'Z1', 'D5'], 3: ['D7', 'Z3', 'D4', 'Z1', 'D5']}
DEVICE_INDEX = {'D7': 6, 'Z3': 12, 'D4': 3, 'Z1': 10, 'D5': 4}     # a caller-supplied device-wide channel map (not 0..N-1)


def describe_variant(variant, d):
    """The ways a description can be obtained: a chain of a given length (with / without refocusing), a sub-chain of a shipped
    layout with the default channel map, the same with a caller-supplied device-wide channel map."""
    from qce_circuit.connectivity.intrf_channel_identifier import QubitIDObj
    from qce_circuit.library.repetition_code.repetition_code_connectivity import Repetition9Code
    if variant == 'chain':
        return RepetitionCodeDescription.from_chain(2 * d - 1)
    if variant == 'chain/no-refocusing':
        return RepetitionCodeDescription.from_chain(2 * d - 1, qubit_refocusing=False)
    ids = [QubitIDObj(n) for n in LAYOUT_CHAINS[d]]
    if variant == 'layout':
        return RepetitionCodeDescription.from_connectivity(ids, Repetition9Code())
    if variant == 'layout/no-refocusing':
        return RepetitionCodeDescription.from_connectivity(ids, Repetition9Code(), qubit_refocusing=False)
    if variant == 'layout/device-map':
        return RepetitionCodeDescription.from_connectivity(ids, Repetition9Code(), qubit_index_map={QubitIDObj(n): DEVICE_INDEX[n] for n in LAYOUT_CHAINS[d]})
    raise ValueError(variant)


VARIANTS = ('chain/no-refocusing', 'layout', 'layout/no-refocusing', 'layout/device-map')


class AgreeFamily(Family):
    def __init__(self, R, ds):
        self.R, self.ds = R, tuple(ds)
        self.name = 'kernel-vs-circuit(R=%d)' % R
        self.rule = ('all lists of distinct round counts from {0..%d} in any order x distance in %r x {all zero, all one, alternating} initial states; per ancilla the circuit\'s heralded / parity / final '
                     'indices vs the kernel\'s heralded / stabilizer+projected / calibration indices; non-trivial = the list has at least two entries or a 0/1-round block' % (R, list(ds)))

    def shards(self, tier):
        return [(d, pat, k) for d in self.ds for pat in (0, 1, 2) for k in range(8)]

    def cases(self, tier, shard):
        d, pat, k = shard
        for i, rl in enumerate(rounds_lists(self.R)):
            if i % 8 == k:
                yield (rl, d, pat)

    def describe(self, tier):
        return {'R': self.R, 'distances': list(self.ds), 'lists': sum(1 for _ in rounds_lists(self.R))}

    def run(self, case):
        rl, d, pat = case[:3]
        variant = case[3] if len(case) > 3 else 'chain'
        res = Res()
        states = [S.ZERO if pat == 0 else S.ONE if pat == 1 else (S.ONE if i % 2 else S.ZERO) for i in range(d)]
        init = InitialStateContainer.from_ordered_list(states)
        desc = describe_variant(variant, d)
        # the kernel is built first, from the description's own identifier lists (as an analysis script would do),
        # and must leave its inputs alone; the circuit is then built from the same description
        rounds_in = list(rl)
        ids_before = ([q.id for q in desc.data_qubit_ids], [q.id for q in desc.ancilla_qubit_ids])
        k = RepetitionExperimentKernel(rounds=rounds_in, heralded_initialization=True, qutrit_calibration_points=True,
                                       involved_data_qubit_ids=desc.data_qubit_ids, involved_ancilla_qubit_ids=desc.ancilla_qubit_ids, experiment_repetitions=1)
        if ([q.id for q in desc.data_qubit_ids], [q.id for q in desc.ancilla_qubit_ids]) != ids_before or rounds_in != list(rl):
            res.fail('C13-kernel-mutates-input', '%r: constructing the kernel changed the identifier lists / rounds list it was given: %r -> %r' % (
                case, ids_before, ([q.id for q in desc.data_qubit_ids], [q.id for q in desc.ancilla_qubit_ids])))
        c = construct_repetition_code_multi_round_circuit(qec_cycles=list(rl), description=desc, initial_state=init)
        slots = cycle_layout(rl, True)
        n = len(slots)
        zero_round_final = sorted(i for i, (b, role) in enumerate(slots) if role == 'F' and b != 'cal' and rl[b] == 0)
        out = []
        for anc in desc.ancilla_qubit_ids:
            qi = desc.get_index(anc)
            allq = [int(x) for x in c.get_acquisition_indices(qi)]
            her = flat(c.get_acquisition_indices(AcquisitionTag(qi, 'heralded')))
            par = flat(c.get_acquisition_indices(AcquisitionTag(qi, 'parity')))
            fin = flat(c.get_acquisition_indices(AcquisitionTag(qi, 'final')))
            k_her = sorted(x for r in rl for x in flat(k.get_heralded_cycle_acquisition_indices(anc, r))) + \
                sorted(x for s in StateKey for x in flat(k.get_heralded_calibration_acquisition_indices(anc, s)))
            k_stab = sorted(x for r in rl for x in flat(k.get_stabilizer_and_projected_cycle_acquisition_indices(anc, r)))
            k_cal = sorted(x for s in StateKey for x in flat(k.get_projected_calibration_acquisition_indices(anc, s)))
            if len(allq) != k.kernel_cycle_length:
                res.fail('C13-count', '%r ancilla %s: circuit has %d acquisitions, kernel cycle length %d' % (case, anc.id, len(allq), k.kernel_cycle_length))
            if allq != list(range(len(allq))):
                res.fail('C13-circuit-indices', '%r ancilla %s: circuit indices %r' % (case, anc.id, allq))
            if her != sorted(k_her):
                res.fail('C13-heralded', '%r ancilla %s: circuit heralded %r, kernel %r' % (case, anc.id, her, sorted(k_her)))
            if par != k_stab:
                res.fail('C13-parity', '%r ancilla %s: circuit parity %r, kernel stabilizer+projected %r' % (case, anc.id, par, k_stab))
            if fin != sorted(k_cal + zero_round_final):
                res.fail('C13-final', '%r ancilla %s: circuit final %r, kernel calibration %r plus 0-round slots %r' % (case, anc.id, fin, k_cal, zero_round_final))
            # both against the layout
            want_her = sorted(i for i, (b, role) in enumerate(slots) if role.startswith('H'))
            want_par = sorted(i for i, (b, role) in enumerate(slots) if b != 'cal' and (role == 'S' or (role == 'F' and rl[b] > 0)))
            want_fin = sorted(i for i, (b, role) in enumerate(slots) if role.startswith('C') or (b != 'cal' and role == 'F' and rl[b] == 0))
            if (her, par, fin) != (want_her, want_par, want_fin):
                res.fail('C13-layout', '%r ancilla %s: circuit (heralded, parity, final) = %r, layout says %r' % (case, anc.id, (her, par, fin), (want_her, want_par, want_fin)))
            out.append((tuple(her), tuple(par), tuple(fin)))
        res.outcome = (n, tuple(out))
        res.transitions = 1
        res.trivial = len(rl) < 2 and rl[0] > 1
        return res


class DescriptionFamily(AgreeFamily):
    """The same comparison for the other ways of obtaining a description, on a smaller box of round lists, plus two deep blocks."""

    def __init__(self, R, ds):
        super().__init__(R, ds)
        self.name = 'kernel-vs-circuit/descriptions(R=%d)' % R
        self.rule = ('all lists of distinct round counts from {0..%d} x distance in %r x descriptions %r (alternating initial state), and the chain description with one block of 28 rounds'
                     % (R, list(ds), list(VARIANTS)))

    def shards(self, tier):
        return [(d, v) for d in self.ds for v in VARIANTS] + [('deep', 'chain')]

    def cases(self, tier, shard):
        d, v = shard
        if d == 'deep':
            yield ((28,), 2, 2, 'chain')
            yield ((1, 28), 2, 2, 'chain')
            return
        for rl in rounds_lists(self.R):
            yield (rl, d, 2, v)

    def describe(self, tier):
        return {'R': self.R, 'distances': list(self.ds), 'variants': list(VARIANTS), 'lists': sum(1 for _ in rounds_lists(self.R))}


def families(tier):
    if tier == 'quick':
        return [AgreeFamily(4, (2,)), AgreeFamily(3, (3,)), DescriptionFamily(3, (2, 3))]
    return [AgreeFamily(5, (2,)), AgreeFamily(4, (3,)), AgreeFamily(3, (4,)), DescriptionFamily(4, (2, 3))]


def signature(f):
    return f['code']
