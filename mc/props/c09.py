"""C09 — repetition-code circuits run the protocol: deterministic detectors, exact record (exhaustive input box)."""
import itertools

import stim

from qce_circuit.addon_stim import to_stim
from qce_circuit.connectivity.intrf_channel_identifier import QubitIDObj
from qce_circuit.language import InitialStateContainer, InitialStateEnum
from qce_circuit.library.repetition_code.circuit_components import RepetitionCodeDescription
from qce_circuit.library.repetition_code.circuit_constructors import construct_repetition_code_circuit
from qce_circuit.library.repetition_code.repetition_code_connectivity import Repetition9Code, Repetition9Round6Code, Repetition5Round4Code
from mc import world
from mc.engine import Family, Res
from mc.ref.protocol import expected_outcomes

PROP = 'C09'
LEVEL = 'exploration'
ASSUMPTIONS = [
    'input box: distances, all computational states of data and ancilla qubits, cycle counts, refocusing on/off, chain from a length and contiguous sub-chains of the shipped layouts (bounds under coverage.bounds)',
    'Stim is the executor of the exported program (tableau simulation, peek_z for exact determinism, detector_error_model for detector/observable determinism); the verdict is the comparison with the classical protocol model mc/ref/protocol.py',
    'the order of measurements of different qubits within the record is taken from the exported program; per qubit the outcomes must follow the protocol in time order',
]
S = InitialStateEnum
LAYOUTS = {'Repetition9Code': Repetition9Code, 'Repetition9Round6Code': Repetition9Round6Code, 'Repetition5Round4Code': Repetition5Round4Code}


def chain_of(layout):
    """Order of the qubits along the repetition chain, from the parity groups (ancilla between its two data qubits)."""
    groups = layout.parity_group_x + layout.parity_group_z
    nb = {}
    for g in groups:
        a = g.ancilla_id.id
        for dq in g.data_ids:
            nb.setdefault(a, []).append(dq.id)
            nb.setdefault(dq.id, []).append(a)
    ends = sorted(q for q, v in nb.items() if len(v) == 1)
    chain = [ends[0]]
    while True:
        nxt = [q for q in nb[chain[-1]] if q not in chain]
        if not nxt:
            break
        chain.append(nxt[0])
    return chain


def run_program(sc):
    """Executes the flattened program on a tableau simulator; returns (record, measured qubits, deterministic)."""
    sim = stim.TableauSimulator()
    qubits = []
    det = True
    for ins in sc.flattened():
        if ins.name in ('M', 'MZ'):
            for t in ins.targets_copy():
                if sim.peek_z(t.value) == 0:
                    det = False
                qubits.append(t.value)
        sim.do(ins)
    return [int(b) for b in sim.current_measurement_record()], qubits, det


def judge(res, label, c, data, anc, cycles, refocus, data_idx, anc_idx):
    d = len(data)
    per_data, per_anc = expected_outcomes(data, anc, cycles, refocus)
    want_q = {}
    for i, q in enumerate(data_idx):
        want_q[q] = list(per_data[i])
    for j, q in enumerate(anc_idx):
        want_q[q] = list(per_anc[j])
    out = []
    for variant in ('as built', 'unrolled', 'flattened'):
        if variant == 'unrolled':
            c = c.apply_modifiers()
        elif variant == 'flattened':
            c = c.flatten()
        sc = to_stim(c)
        rec, qubits, det = run_program(sc)
        if not det:
            res.fail('C09-random-measurement', '%s %s: a measurement outcome is not deterministic' % (label, variant))
        cursor = {q: 0 for q in want_q}
        want = []
        ok = True
        for q in qubits:
            if q not in want_q or cursor[q] >= len(want_q[q]):
                ok = False
                break
            want.append(want_q[q][cursor[q]])
            cursor[q] += 1
        if not ok or any(cursor[q] != len(want_q[q]) for q in want_q):
            res.fail('C09-measurement-count', '%s %s: measured qubits %r, protocol expects per qubit %r' % (label, variant, qubits, {q: len(v) for q, v in want_q.items()}))
        elif rec != want:
            res.fail('C09-record', '%s %s: record %r, protocol prescribes %r (measured qubits %r)' % (label, variant, rec, want, qubits))
        # a detector compares one stabilizer with itself: the ancilla measurements it refers to are all of one ancilla
        measured = []
        for ins in sc.flattened():
            if ins.name in ('M', 'MZ'):
                measured.extend(t.value for t in ins.targets_copy())
            elif ins.name == 'DETECTOR':
                refs = [measured[len(measured) + t.value] for t in ins.targets_copy() if t.is_measurement_record_target and len(measured) + t.value >= 0]
                ancs = sorted({q for q in refs if q in anc_idx})
                if len(ancs) > 1:
                    res.fail('C09-detector-pairing', '%s %s: a detector combines measurements of different ancillas %r (referenced qubits %r)' % (label, variant, ancs, refs))
                    break
        if sc.num_detectors != (d - 1) * (cycles + 1):
            res.fail('C09-detector-count', '%s %s: %d detectors, expected %d' % (label, variant, sc.num_detectors, (d - 1) * (cycles + 1)))
        if sc.num_observables != 1:
            res.fail('C09-observable-count', '%s %s: %d observables' % (label, variant, sc.num_observables))
        try:
            sc.detector_error_model()
        except Exception as e:
            res.fail('C09-nondeterministic-detector', '%s %s: %s' % (label, variant, str(e)[:160]))
        out.append(tuple(rec))
    return tuple(out)


class ChainFamily(Family):
    def __init__(self, dmax, cmax):
        self.dmax, self.cmax = dmax, cmax
        self.name = 'chain(d<=%d,cycles<=%d)' % (dmax, cmax)
        self.rule = ('distance 2..%d x all 2^(2d-1) computational states of data and ancilla qubits x cycles 0..%d x refocusing on/off, description from a chain length; each circuit as built, '
                     'after apply_modifiers() and after flatten(); non-trivial = some qubit starts in 1 or cycles >= 1' % (dmax, cmax))

    def shards(self, tier):
        return [(d, c, r) for d in range(2, self.dmax + 1) for c in range(0, self.cmax + 1) for r in (True, False)]

    def cases(self, tier, shard):
        d, cycles, refocus = shard
        for bits in itertools.product((0, 1), repeat=2 * d - 1):
            yield (d, cycles, refocus, bits)

    def describe(self, tier):
        return {'dmax': self.dmax, 'cmax': self.cmax}

    def run(self, case):
        d, cycles, refocus, bits = case
        res = Res()
        data, anc = bits[:d], bits[d:]
        init = InitialStateContainer.from_ordered_list([S.ONE if b else S.ZERO for b in data], [S.ONE if b else S.ZERO for b in anc])
        desc = RepetitionCodeDescription.from_chain(2 * d - 1, qubit_refocusing=refocus)
        c = construct_repetition_code_circuit(qec_cycles=cycles, description=desc, initial_state=init)
        res.outcome = judge(res, 'input %r' % (case,), c, data, anc, cycles, refocus, [2 * i for i in range(d)], [2 * j + 1 for j in range(d - 1)])
        res.transitions = 3
        res.trivial = not any(bits) and cycles == 0
        return res


class LayoutFamily(Family):
    def __init__(self, dmax, cycles, states='few'):
        self.dmax, self.cycles, self.states = dmax, tuple(cycles), states
        self.name = 'layout-subchains(d<=%d)' % dmax
        self.rule = ('every contiguous data-ancilla-...-data sub-chain (in both directions) with up to %d data qubits of the three shipped repetition layouts through from_connectivity x cycles %r x refocusing on/off x '
                     '%s; non-trivial = always (gate order comes from the layout)' % (dmax, list(cycles), 'all computational states' if states == 'all' else 'six state patterns'))

    def shards(self, tier):
        return [(n, c) for n in LAYOUTS for c in self.cycles]

    def cases(self, tier, shard):
        name, cycles = shard
        chain = chain_of(LAYOUTS[name]())
        nd = (len(chain) + 1) // 2
        for d in range(2, min(self.dmax, nd) + 1):
            for start in range(0, nd - d + 1):
                sub = tuple(chain[2 * start: 2 * (start + d) - 1])
                if self.states == 'all':
                    pats = list(itertools.product((0, 1), repeat=2 * d - 1))
                else:
                    pats = [tuple([0] * (2 * d - 1)), tuple([1] * d + [0] * (d - 1)), tuple([i % 2 for i in range(d)] + [1] * (d - 1)), tuple([1, 0] * d)[:d] + tuple([0, 1] * d)[:d - 1],
                            # neighbouring parities differ: a permutation of the ancillas inside a round is visible in the record
                            tuple([1] + [0] * (d - 1) + [0] * (d - 1)), tuple([0] * (d - 1) + [1] + [1] + [0] * (d - 2))]
                for bits in pats:
                    for refocus in (True, False):
                        yield (name, sub, cycles, refocus, bits)
                        # the same qubits handed over in the opposite direction (the order of the identifiers is the order of the chain)
                        yield (name, tuple(reversed(sub)), cycles, refocus, bits)

    def run(self, case):
        name, sub, cycles, refocus, bits = case
        res = Res()
        d = (len(sub) + 1) // 2
        data, anc = bits[:d], bits[d:]
        init = InitialStateContainer.from_ordered_list([S.ONE if b else S.ZERO for b in data], [S.ONE if b else S.ZERO for b in anc])
        desc = RepetitionCodeDescription.from_connectivity([QubitIDObj(q) for q in sub], LAYOUTS[name](), qubit_refocusing=refocus)
        c = construct_repetition_code_circuit(qec_cycles=cycles, description=desc, initial_state=init)
        res.outcome = judge(res, 'input %r' % (case,), c, data, anc, cycles, refocus, [2 * i for i in range(d)], [2 * j + 1 for j in range(d - 1)])
        res.transitions = 3
        res.trivial = False
        return res


class SparseFamily(Family):
    """The same states given as sparse containers: only the qubits prepared in 1 are listed, every other qubit defaults to 0."""
    name = 'sparse-containers(d=3)'
    rule = ('distance 3, every subset of data qubits and every subset of ancilla qubits listed as ONE in a sparse InitialStateContainer (unlisted qubits default to ZERO) x cycles {0,1,2,4} x '
            'explicit chain description; non-trivial = at least one qubit is listed')

    def shards(self, tier):
        return [0, 1, 2, 4]

    def cases(self, tier, shard):
        for bits in itertools.product((0, 1), repeat=5):
            yield (shard, bits)

    def run(self, case):
        cycles, bits = case
        res = Res()
        d = 3
        data, anc = bits[:d], bits[d:]
        init = InitialStateContainer(initial_states={i: S.ONE for i, b in enumerate(data) if b}, ancilla_initial_states={j: S.ONE for j, b in enumerate(anc) if b})
        desc = RepetitionCodeDescription.from_chain(2 * d - 1, qubit_refocusing=True)
        c = construct_repetition_code_circuit(qec_cycles=cycles, description=desc, initial_state=init)
        res.outcome = judge(res, 'sparse input %r' % (case,), c, data, anc, cycles, True, [2 * i for i in range(d)], [2 * j + 1 for j in range(d - 1)])
        res.transitions = 3
        res.trivial = not any(bits)
        return res


def families(tier):
    if tier == 'quick':
        return [ChainFamily(3, 6), ChainFamily(4, 4), LayoutFamily(3, (0, 1, 2, 3, 4)), SparseFamily()]
    return [ChainFamily(4, 6), ChainFamily(5, 4), LayoutFamily(4, (0, 1, 2, 3, 4, 5), states='all'), LayoutFamily(9, (0, 1, 3)), SparseFamily()]


def signature(f):
    return f['code']
