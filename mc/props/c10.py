"""C10 — library circuits never double-book a qubit channel (exhaustive box of inputs x duration configurations)."""
import itertools

from qce_circuit.connectivity.intrf_channel_identifier import QubitIDObj
from qce_circuit.language import InitialStateContainer, InitialStateEnum
from qce_circuit.library.repetition_code.circuit_components import RepetitionCodeDescription, CompositeRepetitionCodeDescription
from qce_circuit.connectivity.intrf_channel_identifier import EdgeIDObj
from qce_circuit.library.repetition_code.circuit_constructors import construct_repetition_code_circuit, construct_repetition_code_circuit_simplified
from qce_circuit.library.state_calibration.circuit_constructors import construct_calibration_circuit
from qce_circuit.library.state_calibration.circuit_components import CalibrationDescription, CalibrateType
from mc import world
from mc.engine import Family, Res
from mc.props.c09 import LAYOUTS, chain_of
from mc.ref.schedule import chans_of

PROP = 'C10'
LEVEL = 'exploration'
ASSUMPTIONS = [
    'input box under coverage.bounds; duration configurations: every assignment of a small value set to (readout, microwave, flux, reset), which contains every strict order and every tie pattern of the four lengths',
    'each circuit is constructed, unrolled and timed inside the override of every configuration (unrolling evaluates end times)',
    'overlap sweep per qubit channel, ALL overlapping every channel of its qubit; zero-length operations never overlap; a barrier blocks all channels of its qubits',
]
EPS = 1e-9
S = InitialStateEnum


def overlaps(ops):
    """First pair of operations of non-zero length that overlap in time on a common qubit channel (None if there is none)."""
    per_q = {}
    for o in ops:
        d = o.duration
        if d <= EPS:
            continue
        s, e = o.start_time, o.end_time
        for q, ch in chans_of(o):
            per_q.setdefault(q, []).append((s, e, ch, type(o).__name__))
    for q, lst in per_q.items():
        lst.sort(key=lambda x: (x[0], x[1]))
        for i, (s1, e1, c1, n1) in enumerate(lst):
            for s2, e2, c2, n2 in lst[i + 1:]:
                if s2 >= e1 - EPS:
                    break
                if c1 == c2 or 'ALL' in (c1, c2):
                    return (q, (n1, c1, s1, e1), (n2, c2, s2, e2))
    return None


def build_input(inp):
    kind = inp[0]
    if kind in ('chain', 'simplified'):
        _, d, cycles, refocus, ones = inp
        init = InitialStateContainer.from_ordered_list([S.ONE if ones else S.ZERO] * d)
        desc = RepetitionCodeDescription.from_chain(2 * d - 1, qubit_refocusing=refocus)
        ctor = construct_repetition_code_circuit if kind == 'chain' else construct_repetition_code_circuit_simplified
        return ctor(qec_cycles=cycles, description=desc, initial_state=init)
    if kind == 'layout':
        _, name, sub, cycles = inp
        d = (len(sub) + 1) // 2
        init = InitialStateContainer.from_ordered_list([S.ZERO] * d)
        desc = RepetitionCodeDescription.from_connectivity([QubitIDObj(q) for q in sub], LAYOUTS[name]())
        return construct_repetition_code_circuit(qec_cycles=cycles, description=desc, initial_state=init)
    if kind == 'composite':
        _, name, sub, cycles, excluded, only_required = inp
        d = (len(sub) + 1) // 2
        init = InitialStateContainer.from_ordered_list([S.ZERO] * d)
        ids = [QubitIDObj(q) for q in sub]
        lay = LAYOUTS[name]()
        base = RepetitionCodeDescription.from_connectivity(ids, lay)
        desc = CompositeRepetitionCodeDescription(_base_description=base, _qubit_index_map={q: i for i, q in enumerate(ids)}, _connectivity=lay,
                                                 _exclude_gate_edge_ids=[EdgeIDObj(QubitIDObj(excluded[0]), QubitIDObj(excluded[1]))],
                                                 _only_required_parking_operations=only_required)
        return construct_repetition_code_circuit(qec_cycles=cycles, description=desc, initial_state=init)
    if kind == 'calibration':
        _, ty, nq = inp
        qs = [QubitIDObj('D%d' % (i + 1)) for i in range(nq)]
        return construct_calibration_circuit(CalibrationDescription(_qubit_ids=qs, _qubit_index_map={q: i for i, q in enumerate(qs)}, _type=CalibrateType[ty]))
    raise ValueError(inp)


def inputs(tier):
    out = []
    ds = (2, 3)
    cycles = (0, 1, 2, 4) if tier == 'quick' else (0, 1, 2, 3, 4, 5)
    for d in ds if tier == 'quick' else (2, 3, 4):
        for c in cycles:
            for refocus in (True, False):
                out.append(('chain', d, c, refocus, 0))
            out.append(('chain', d, c, True, 1))
            out.append(('simplified', d, c, True, 0))
    if tier == 'quick':
        # the repeated middle block exists from 4 cycles on and is repeated at least twice from 5 cycles on
        for c in (5, 6):
            out.append(('chain', 3, c, True, 0))
    maxd = 3 if tier == 'quick' else 4
    for name in LAYOUTS:
        chain = chain_of(LAYOUTS[name]())
        nd = (len(chain) + 1) // 2
        for d in range(2, maxd + 1):
            for start in range(0, nd - d + 1):
                for c in ((0, 1, 2, 4) if d == 2 or tier != 'quick' else (1, 3)):
                    out.append(('layout', name, tuple(chain[2 * start: 2 * (start + d) - 1]), c))
    # composite descriptions: one excluded gate edge of the chain, static or only-required parking
    for name in LAYOUTS:
        chain = chain_of(LAYOUTS[name]())
        nd = (len(chain) + 1) // 2
        for d in ((3,) if tier == 'quick' else (2, 3, 4)):
            for start in range(0, nd - d + 1):
                sub = tuple(chain[2 * start: 2 * (start + d) - 1])
                for e in range(len(sub) - 1):
                    for only_required in ((False,) if tier == 'quick' and e % 2 else (False, True)):
                        out.append(('composite', name, sub, 2, (sub[e], sub[e + 1]), only_required))
    for ty in ('QUBIT', 'QUTRIT'):
        for nq in (1, 2, 3, 4):
            out.append(('calibration', ty, nq))
    return out


class OverlapFamily(Family):
    def __init__(self, tier):
        self.vals = (1.0, 2.0, 3.0) if tier == 'quick' else (0.5, 1.0, 2.0, 3.5)
        self.name = 'library-overlap'
        self.rule = ('constructor inputs (chain and simplified constructors, layout sub-chains, composite descriptions with one excluded gate edge, calibration QUBIT/QUTRIT for 1..4 qubits) x every assignment of %r to (readout, microwave, flux, reset) (composite descriptions: microwave x flux only); '
                     'each circuit as constructed and after apply_modifiers(); non-trivial = the four durations are not all equal' % (list(self.vals),))
        self._inputs = inputs(tier)

    def shards(self, tier):
        return list(range(len(self._inputs)))

    def cases(self, tier, shard):
        inp = self._inputs[shard]
        if inp[0] == 'composite':
            # composite descriptions are expensive to evaluate (~0.5 s): microwave x flux over all values, readout and reset fixed
            for mw, fl in itertools.product(self.vals, repeat=2):
                yield (inp, (2.0, mw, fl, 2.0))
            return
        for cfg in itertools.product(self.vals, repeat=4):
            yield (inp, cfg)

    def describe(self, tier):
        return {'inputs': len(self._inputs), 'configurations': len(self.vals) ** 4, 'values': list(self.vals),
                'composite_inputs': sum(1 for i in self._inputs if i[0] == 'composite'), 'composite_configurations': len(self.vals) ** 2}

    def run(self, case):
        inp, cfgv = case
        res = Res()
        cfg = world.cfg(*cfgv)
        with world.override(cfg):
            c = build_input(inp)
            world.clear_memo()
            ops = c.operations
            bad = overlaps(ops)
            if bad:
                res.fail('C10-overlap', 'input %r under (readout, microwave, flux, reset)=%r as constructed: qubit %d double-booked: %r and %r' % (inp, cfgv, bad[0], bad[1], bad[2]))
            un = c.apply_modifiers()
            world.clear_memo()
            uops = un.operations
            bad = overlaps(uops)
            if bad:
                res.fail('C10-overlap-unrolled', 'input %r under %r after unrolling: qubit %d double-booked: %r and %r' % (inp, cfgv, bad[0], bad[1], bad[2]))
            res.outcome = (len(ops), len(uops), round(max([o.end_time for o in uops] + [0.0]), 9))
        res.transitions = 2
        res.trivial = len(set(cfgv)) == 1
        return res


class SameObjectFamily(Family):
    """The property holds 'whatever the configured durations are': the same circuit object is re-timed under every
    configuration in turn (ascending and descending order), so a duration that is computed once and kept is seen."""

    def __init__(self, tier):
        self.vals = (1.0, 2.0, 3.0)
        self.name = 'library-overlap/same-object'
        self.rule = ('one circuit object per constructor input (constructed and unrolled under the repository default), then timed under every assignment of %r to the four durations in '
                     'ascending and in descending order; non-trivial = always' % (list(self.vals),))
        self._inputs = [i for i in inputs('quick') if (i[0] in ('chain', 'simplified') and i[2] in (2, 4)) or i[0] == 'calibration' or (i[0] == 'layout' and len(i[2]) <= 3 and i[3] == 2)]

    def shards(self, tier):
        return list(range(len(self._inputs)))

    def cases(self, tier, shard):
        yield self._inputs[shard]

    def describe(self, tier):
        return {'inputs': len(self._inputs), 'configurations': 2 * len(self.vals) ** 4}

    def run(self, inp):
        res = Res()
        c = build_input(inp)
        un = build_input(inp).apply_modifiers()
        cfgs = list(itertools.product(self.vals, repeat=4))
        n = 0
        for order in (cfgs, cfgs[::-1]):
            for cfgv in order:
                with world.override(world.cfg(*cfgv)):
                    for label, circ in (('as constructed', c), ('unrolled under the default configuration', un)):
                        bad = overlaps(circ.operations)
                        n += 1
                        if bad:
                            res.fail('C10-overlap-reconfigured', 'input %r %s, re-timed under %r after other configurations: qubit %d double-booked: %r and %r' % (
                                inp, label, cfgv, bad[0], bad[1], bad[2]))
                            res.outcome = ('fail', cfgv)
                            res.transitions = n
                            return res
        res.outcome = (inp, n)
        res.transitions = n
        res.trivial = False
        return res


def families(tier):
    return [OverlapFamily(tier), SameObjectFamily(tier)]


def signature(f):
    return f['code']
