"""C12 — index kernels tile the acquisition index range without gaps or overlap (exhaustive input box)."""
import itertools

import numpy as np

from qce_circuit.connectivity.intrf_channel_identifier import QubitIDObj
from qce_circuit.structure.acquisition_indexing.kernel_repetition_code import RepetitionExperimentKernel
from qce_circuit.structure.acquisition_indexing.intrf_stabilizer_index_kernel import StateKey
from mc.engine import Family, Res
from mc.ref.kernel import cycle_layout, expected, block_span

PROP = 'C12'
LEVEL = 'exploration'
ASSUMPTIONS = [
    'input box: all lists of distinct round counts from {0..R} in any order x heralded on/off x experiment repetitions {1,2,3} x qubit sets (1-3 data, 0-2 ancilla identifiers)',
    'reference layout mc/ref/kernel.py (pure arithmetic); with and without qutrit calibration points',
]


def rounds_lists(R):
    for k in range(1, R + 2):
        for sub in itertools.permutations(range(R + 1), k):
            yield sub


QSETS = [(1, 0), (2, 1), (3, 2), (1, 2), (3, 0)]
STATES = {0: StateKey.STATE_0, 1: StateKey.STATE_1, 2: StateKey.STATE_2}


def flat(a):
    return [int(x) for x in np.asarray(a).flatten().tolist()]


def rows(a, reps):
    a = np.asarray(a)
    if a.size == 0:
        return [[] for _ in range(reps)]
    return [[int(x) for x in r] for r in a.reshape(reps, -1).tolist()]


class KernelFamily(Family):
    def __init__(self, R):
        self.R = R
        self.name = 'kernels(R=%d)' % R
        self.rule = ('all lists of distinct round counts from {0..%d} in any order x heralded {on, off} x calibration points {on, off} x repetitions {1,2,3} x %d qubit sets; '
                     'non-trivial = the list has at least two entries or contains a 0- or 1-round block' % (R, len(QSETS)))

    def shards(self, tier):
        return [(h, reps, cal) for h in (True, False) for reps in (1, 2, 3) for cal in (True, False)]

    def cases(self, tier, shard):
        h, reps, cal = shard
        for rl in rounds_lists(self.R):
            for qs in QSETS:
                yield (rl, h, reps, qs, cal)

    def describe(self, tier):
        return {'R': self.R, 'lists': sum(1 for _ in rounds_lists(self.R)), 'qubit_sets': QSETS}

    def run(self, case):
        rl, her, reps, (nd, na), cal = case
        res = Res()
        D = [QubitIDObj('D%d' % (i + 1)) for i in range(nd)]
        A = [QubitIDObj('Z%d' % (i + 1)) for i in range(na)]
        outsider = QubitIDObj('X4')
        given_rounds, given_D, given_A = list(rl), list(D), list(A)
        k = RepetitionExperimentKernel(rounds=given_rounds, heralded_initialization=her, qutrit_calibration_points=cal,
                                       involved_data_qubit_ids=given_D, involved_ancilla_qubit_ids=given_A, experiment_repetitions=reps)
        # the description was given at construction: what the caller does with its own lists afterwards does not matter
        given_rounds.reverse()
        given_rounds.append(self.R + 1)
        slots = cycle_layout(rl, her, cal)
        n = len(slots)
        ks = k.indexing_kernels
        # contiguous, non-overlapping kernels, matching the layout blocks
        blocks = list(range(len(rl))) + (['cal'] if cal else [])
        if len(ks) != len(blocks):
            res.fail('C12-kernel-count', '%r: %d kernels for %d blocks' % (case, len(ks), len(blocks)))
        prev_stop = None
        for kern, b in zip(ks, blocks):
            lo, hi = block_span(slots, b)
            if (kern.start_index, kern.stop_index) != (lo, hi):
                res.fail('C12-kernel-span', '%r: kernel of block %r spans %d..%d, layout says %d..%d' % (case, b, kern.start_index, kern.stop_index, lo, hi))
            if prev_stop is not None and kern.start_index != prev_stop + 1:
                res.fail('C12-contiguous', '%r: kernel of block %r starts at %d after a kernel stopping at %d' % (case, b, kern.start_index, prev_stop))
            if kern.kernel_length != kern.stop_index - kern.start_index + 1:
                res.fail('C12-kernel-length', '%r' % (case,))
            prev_stop = kern.stop_index
        if k.kernel_cycle_length != n:
            res.fail('C12-cycle-length', '%r: cycle length %d, layout has %d slots' % (case, k.kernel_cycle_length, n))
        if k.start_index != 0:
            res.fail('C12-start', '%r: experiment starts at %d' % (case, k.start_index))
        outcome = []
        for q, is_anc, involved in [(x, False, True) for x in D] + [(x, True, True) for x in A] + [(outsider, False, False)]:
            _, want = expected(rl, her, reps, is_anc, involved, cal)
            got = {}
            for r in rl:
                got[('heralded', r)] = rows(k.get_heralded_cycle_acquisition_indices(q, r), reps)
                got[('stabilizer+projected', r)] = rows(k.get_stabilizer_and_projected_cycle_acquisition_indices(q, r), reps)
                got[('projected', r)] = rows(k.get_projected_cycle_acquisition_indices(q, r), reps)
            for s, key in STATES.items():
                got[('cal-heralded', s)] = rows(k.get_heralded_calibration_acquisition_indices(q, key), reps)
                got[('cal', s)] = rows(k.get_projected_calibration_acquisition_indices(q, key), reps)
            for cat in want:
                if got[cat] != want[cat]:
                    res.fail('C12-category', '%r qubit %r: %r indices %r, layout says %r' % (case, q, cat, got[cat], want[cat]))
            # the statement's own clauses, checked on the reported values
            cats = {c: [x for row in v for x in row] for c, v in got.items() if c[0] != 'projected'}
            allv = [x for v in cats.values() for x in v]
            if len(set(allv)) != len(allv):
                res.fail('C12-disjoint', '%r qubit %r: categories overlap: %r' % (case, q, sorted(allv)))
            for (cat, r), v in got.items():
                if cat in ('heralded', 'stabilizer+projected', 'projected'):
                    bi = list(rl).index(r)
                    lo, hi = block_span(slots, bi)
                elif not cal:
                    if any(v):
                        res.fail('C12-inside', '%r qubit %r: calibration indices %r reported although the description has no calibration points' % (case, q, v))
                    continue
                else:
                    lo, hi = block_span(slots, 'cal')
                for kk, row in enumerate(v):
                    if any(not (lo + kk * n <= x <= hi + kk * n) for x in row):
                        res.fail('C12-inside', '%r qubit %r: %r index outside its kernel: %r' % (case, q, (cat, r), row))
                    if row != [x + kk * n for x in v[0]]:
                        res.fail('C12-translate', '%r qubit %r: repetition %d of %r is not a translate by the cycle length' % (case, q, kk, (cat, r)))
            if is_anc:
                missing = set(range(n * reps)) - set(allv)
                want_missing = {i + kk * n for kk in range(reps) for i, (b, role) in enumerate(slots) if role == 'F' and b != 'cal' and rl[b] == 0}
                if missing != want_missing:
                    res.fail('C12-cover', '%r ancilla %r: uncovered indices %r, expected only the final slot of 0-round blocks %r' % (case, q, sorted(missing), sorted(want_missing)))
            outcome.append(tuple(sorted((str(c), tuple(map(tuple, v))) for c, v in got.items())))
        # not-present round count
        absent = self.R + 3
        if flat(k.get_heralded_cycle_acquisition_indices(D[0], absent)) or flat(k.get_stabilizer_and_projected_cycle_acquisition_indices(D[0], absent)):
            res.fail('C12-absent-round', '%r: indices reported for a round count that is not in the list' % (case,))
        for dataset_reps in (reps, reps + 4):
            try:
                est = RepetitionExperimentKernel.estimate_experiment_repetitions(list(rl), her, cal, n * dataset_reps)
            except AssertionError as e:
                est = 'AssertionError'
            if est != dataset_reps:
                res.fail('C12-estimate', '%r: estimate for dataset size %d x %d is %r' % (case, n, dataset_reps, est))
        res.outcome = (n, tuple(outcome))
        res.transitions = 1
        res.trivial = len(rl) < 2 and rl[0] > 1
        return res


def families(tier):
    return [KernelFamily(4 if tier == 'quick' else 6)]


def signature(f):
    return f['code']
