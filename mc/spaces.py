"""Finite program spaces (DESIGN.md section 3.3).  Every space is enumerated completely, simplest first."""
import itertools

RTS = ('FB', 'JS', 'JE')


class Space:
    """Programs = sequences of steps; the steps enabled at position i may refer to entries 0..i-1."""
    name = 'space'

    def __init__(self, max_len):
        self.max_len = max_len

    def steps(self, i):
        raise NotImplementedError

    def count_len(self, L):
        n = 1
        for i in range(L):
            n *= len(self.steps(i))
        return n

    def count(self):
        return sum(self.count_len(L) for L in range(1, self.max_len + 1))

    def shards(self):
        """Shards: (L, prefix) with a prefix of up to two steps, so that no shard is huge."""
        out = []
        for L in range(1, self.max_len + 1):
            if self.count_len(L) <= 3000:
                out.append((L, ()))
            else:
                depth = 1 if self.count_len(L) <= 200000 else 2
                for pre in itertools.product(*[self.steps(i) for i in range(depth)]):
                    out.append((L, tuple(pre)))
        return out

    def cases(self, shard):
        L, pre = shard
        rest = [self.steps(i) for i in range(len(pre), L)]
        for tail in itertools.product(*rest):
            yield tuple(pre) + tail

    def describe(self):
        return {'space': self.name, 'max_len': self.max_len, 'programs': self.count(),
                'steps_at_position': [len(self.steps(i)) for i in range(self.max_len)]}


def with_relations(atoms, i, rts=RTS):
    out = []
    for k, q in atoms:
        out.append(('op', k, q, None))
        for r in range(i):
            for t in rts:
                out.append(('op', k, q, (t, r)))
    return out


class FlatSpace(Space):
    """F(n): flat programs over 15 atoms, each added without relation or with any relation to any earlier entry."""
    name = 'F'
    ATOMS = [(k, q) for k in ('X', 'R', 'M', 'P', 'Z', 'W', 'V') for q in (0, 1)] + [('B', 0)]

    def __init__(self, max_len, atoms=None):
        super().__init__(max_len)
        self.atoms = atoms or self.ATOMS
        self._steps = {}

    def steps(self, i):
        if i not in self._steps:
            self._steps[i] = with_relations(self.atoms, i)
        return self._steps[i]


# canned block bodies for N1: single op; op on the other qubit; two qubits in parallel with unequal
# lengths; two in sequence on one qubit; barrier first
N1_BODIES = [
    (('op', 'X', 0, None),),
    (('op', 'R', 1, None),),
    (('op', 'X', 0, None), ('op', 'R', 1, None)),
    (('op', 'R', 0, None), ('op', 'X', 0, None)),
    (('op', 'B', 0, None), ('op', 'X', 1, None)),
]
# blocks whose last-ending operation is not a relation leaf / that start before their first operation
N1_BODIES_EXTRA = [
    (('op', 'R', 0, None), ('op', 'X', 1, ('JS', 0))),
    (('op', 'X', 0, None), ('op', 'R', 1, ('JE', 0))),
    (('sub', 2, (('op', 'X', 0, None),)), ('op', 'M', 0, None)),
    # a long leaf next to a chain of three: the latest-ending relation leaf is two relation steps shallower than the deepest one
    (('op', 'R', 1, None), ('op', 'X', 0, None), ('op', 'X', 0, None), ('op', 'X', 0, None)),
    # two parallel nested blocks and an operation that follows the first of them
    (('sub', 1, (('op', 'X', 0, None),)), ('sub', 1, (('op', 'R', 1, None),)), ('op', 'X90', 2, ('FB', 0))),
    # a block without content
    (),
    # three parallel leaves, the longest of them listed in the middle (under G resp. H)
    (('op', 'X', 0, None), ('op', 'R', 1, None), ('op', 'P', 2, None)),
    (('op', 'R', 1, None), ('op', 'X', 0, None), ('op', 'P', 2, None)),
    # a wait on the flux channel only: the microwave gate on the same qubit runs next to it, not behind it
    (('op', 'Wfl', 0, None), ('op', 'X', 0, None)),
]


class NestedSpace1(Space):
    """N1(n): top level of atoms with any relation to any earlier entry (including an earlier block) and canned blocks."""
    name = 'N1'
    ATOMS = [('X', 0), ('X', 1), ('R', 0), ('R', 1), ('B', 0)]

    def __init__(self, max_len, reps=(1, 2), bodies=None, atoms=None, block_rels=()):
        super().__init__(max_len)
        self.reps = reps
        self.block_rels = tuple(block_rels)
        if block_rels:
            self.name = 'N1R'
        self.bodies = bodies or N1_BODIES
        self.atoms = atoms or self.ATOMS
        self._steps = {}

    def steps(self, i):
        if i not in self._steps:
            s = with_relations(self.atoms, i)
            for body in self.bodies:
                for rep in self.reps:
                    s.append(('sub', rep, body))
                    for t in self.block_rels:      # blocks with a relation of their own (inserted through add_operation)
                        for r in range(i):
                            s.append(('sub', rep, body, None, (t, r)))
            self._steps[i] = s
        return self._steps[i]

    def describe(self):
        d = super().describe()
        d.update({'reps': list(self.reps), 'bodies': len(self.bodies)})
        return d


class NestedSpace2(Space):
    """N2(n): implicitly sequenced programs: 11 atoms or a block with any body of 1-2 atoms, repetition 1..3."""
    name = 'N2'
    ATOMS = [(k, q) for k in ('X', 'R', 'M', 'Z', 'P') for q in (0, 1)] + [('B', 0)]

    def __init__(self, max_len, reps=(1, 2, 3), atoms=None, body_len=2):
        super().__init__(max_len)
        atoms = atoms or self.ATOMS
        leafs = [('op', k, q, None) for k, q in atoms]
        bodies = [(a,) for a in leafs]
        if body_len >= 2:
            bodies += [(a, b) for a in leafs for b in leafs]
        self._s = list(leafs) + [('sub', r, body) for body in bodies for r in reps]
        self.reps = reps

    def steps(self, i):
        return self._s

    def describe(self):
        d = super().describe()
        d.update({'reps': list(self.reps)})
        return d


class TwoLevelSpace(Space):
    """Blocks inside blocks on a small sub-alphabet, so that nested repetition counts multiply."""
    name = 'N3'
    ATOMS = [('X', 0), ('R', 1), ('M', 0)]

    def __init__(self, max_len, reps=(1, 2, 3)):
        super().__init__(max_len)
        leafs = [('op', k, q, None) for k, q in self.ATOMS]
        inner = [('sub', r, (a,)) for a in leafs for r in reps if r > 1]
        # inner blocks that branch: the latest-ending leaf is shallower than / different from the deepest one
        inner += [('sub', r, (('op', 'R', 1, None), ('op', 'X', 0, None), ('op', 'X', 0, None))) for r in reps if r > 1]
        inner += [('sub', r, (('op', 'R', 0, None), ('op', 'X', 1, ('JS', 0)))) for r in reps if r > 1]
        inner += [('sub', r, (('op', 'R', 1, None), ('op', 'X', 0, None), ('op', 'X', 0, None), ('op', 'X', 0, None))) for r in reps if r > 1]
        mid_bodies = [(x,) for x in inner] + [(a, x) for a in leafs for x in inner] + [(x, a) for a in leafs for x in inner]
        self._s = list(leafs) + [('sub', r, body) for body in mid_bodies for r in reps]
        self.reps = reps

    def steps(self, i):
        return self._s


class SparseSpace(Space):
    """S(n, r): longer programs with few *deviations*: sequences of up to n atoms that are implicitly sequenced except
    for at most r entries that carry an explicit relation (FOLLOWED_BY or JOINED_START to any earlier entry).
    Deep relation trees with leaves at different depths on one qubit need 5-6 entries; F(n) cannot reach them."""
    name = 'S'
    ATOMS = [('X', 0), ('X', 1), ('P', 0), ('R', 0)]
    RTS = ('FB', 'JS')

    def __init__(self, max_len, max_rel=2, min_len=4, atoms=None, last_atoms=None):
        super().__init__(max_len)
        self.max_rel, self.min_len = max_rel, min_len
        if atoms is not None:
            self.ATOMS = list(atoms)
        self.LAST = list(last_atoms) if last_atoms is not None else list(self.ATOMS)

    def count_len(self, L):
        import math
        n = len(self.ATOMS) ** (L - 1) * len(self.LAST)
        opts = [len(self.RTS) * i for i in range(L)]
        tot = 0
        for r in range(0, self.max_rel + 1):
            for pos in itertools.combinations(range(L), r):
                t = 1
                for p_ in pos:
                    t *= opts[p_]
                tot += t
        return n * tot

    def count(self):
        return sum(self.count_len(L) for L in range(self.min_len, self.max_len + 1))

    def shards(self):
        return [(L, a, b) for L in range(self.min_len, self.max_len + 1) for a in range(len(self.ATOMS)) for b in range(len(self.ATOMS))]

    def cases(self, shard):
        L, a, b = shard
        for atoms in itertools.product(range(len(self.ATOMS)), repeat=L - 3):
          for last in self.LAST:
            seq = [self.ATOMS[a], self.ATOMS[b]] + [self.ATOMS[i] for i in atoms] + [last]
            for r in range(0, self.max_rel + 1):
                for pos in itertools.combinations(range(1, L), r):
                    choices = [[(t, j) for t in self.RTS for j in range(p_)] for p_ in pos]
                    for rels in itertools.product(*choices):
                        relmap = dict(zip(pos, rels))
                        yield tuple(('op', k, q, relmap.get(i)) for i, (k, q) in enumerate(seq))

    def describe(self):
        return {'space': self.name, 'max_len': self.max_len, 'min_len': self.min_len, 'max_explicit_relations': self.max_rel,
                'programs': self.count(), 'atoms': self.ATOMS, 'last_atoms': self.LAST, 'relation_types': list(self.RTS)}
