"""Command line: ./check <ID> [--tier quick|thorough] | ./check replay <file> | ./check selftest"""
import argparse
import hashlib
import importlib
import json
import os
import sys
import time

HOME = os.environ.get('VERIF_HOME', os.path.dirname(os.path.dirname(os.path.abspath(__file__))))
PROPS = ['C%02d' % i for i in range(1, 20)]


def load_known():
    path = os.path.join(HOME, 'known_findings.jsonl')
    out = []
    if os.path.exists(path):
        for line in open(path):
            line = line.strip()
            if line and not line.startswith('#'):
                out.append(json.loads(line))
    return out


def module_for(prop):
    return importlib.import_module('mc.props.' + prop.lower())


def write_replay(prop, fail, signature):
    d = os.path.join(HOME, 'replays', prop)
    os.makedirs(d, exist_ok=True)
    body = {'property': prop, 'family': fail['family'], 'case': fail['case'], 'code': fail['code'],
            'detail': fail['detail'], 'signature': signature}
    blob = json.dumps(body, indent=1, default=str)
    sha = hashlib.sha1(json.dumps([prop, fail['family'], fail['case'], fail['code']], default=str).encode()).hexdigest()[:12]
    path = os.path.join(d, sha + '.json')
    with open(path, 'w') as f:
        f.write(blob + '\n')
    return path


def run_check(prop, tier, seed):
    from mc import engine, evidence
    mod = module_for(prop)
    fams = mod.families(tier)
    t0 = time.time()
    merged = engine.explore(prop, fams, tier, seed)
    wall = time.time() - t0
    known = [k for k in load_known() if k.get('property') == prop and k.get('status') == 'known']
    sig_fn = getattr(mod, 'signature', lambda f: f['family'] + ':' + f['code'])
    matched = {}
    new = {}
    for f in merged['fails']:
        sig = sig_fn(f)
        hit = next((k for k in known if k['signature'] == sig), None)
        if hit is not None:
            matched.setdefault(hit['id'], {'finding': hit, 'count': 0, 'first': f})['count'] += 1
        else:
            new.setdefault(sig, []).append(f)
    # failures beyond the per-shard cap are counted by code; they all share a code with a kept failure
    rc = 0
    lines = []
    for fid, m in matched.items():
        k = m['finding']
        kpath = write_replay(prop, m['first'], k['signature'])
        lines.append('KNOWN-FINDING: property=%s %s %s (%d kept occurrences; e.g. %s; replay=%s)' % (
            prop, k['id'], k['signature'], m['count'], json.dumps(m['first']['case'], default=str)[:200], kpath))
    nviol = 0
    for sig, fl in new.items():
        nviol += len(fl)
        for f in fl[:3]:
            path = write_replay(prop, f, sig)
            lines.append('VIOLATION property=%s replay=%s' % (prop, path))
            lines.append('  signature=%s  detail=%s' % (sig, f['detail'][:400].replace('\n', ' | ')))
        rc = 1
    if merged['harness_errors']:
        kind = 'HARNESS-ERROR' if any('harness_error' in h for h in merged['harness_errors']) else 'HARNESS-NONDETERMINISM'
        lines.append('%s: %s' % (kind, json.dumps(merged['harness_errors'][:3], default=str)[:600]))
        rc = 2
    if merged['executions'] == 0:
        lines.append('HARNESS-ERROR: nothing was explored')
        rc = 2
    ev = evidence.build(prop, mod, fams, tier, seed, merged, wall, nviol,
                        known_matched={fid: m['count'] for fid, m in matched.items()})
    evidence.write(prop, ev)
    cov = ev['coverage']
    print('%s tier=%s seed=%d executions=%d transitions=%d states=%d distinct_outcomes=%d fail_counts=%s digest=%016x wall=%.1fs' % (
        prop, tier, seed, merged['executions'], merged['transitions'], merged['states'],
        merged['distinct_outcomes'], json.dumps(merged['fail_counts']), merged['digest'], wall))
    for k, v in merged['per_family'].items():
        print('  family %-28s executions=%d shards=%d' % (k, v['executions'], v['shards']))
    if merged['extra']:
        print('  counters: %s' % json.dumps(merged['extra'], sort_keys=True))
    for l in lines:
        print(l)
    sys.stdout.flush()
    return rc


def replay(path):
    from mc import world
    body = json.load(open(path))
    prop = body['property']
    mod = module_for(prop)
    fam = next((f for t in ('quick', 'thorough') for f in mod.families(t) if f.name == body['family']), None)
    if fam is None:
        print('HARNESS-ERROR: unknown family %r for %s' % (body['family'], prop))
        return 2
    world.reset()
    fam.setup('thorough', None)
    try:
        r = fam.run(_tuplify(body['case']))
    except Exception as e:
        import traceback
        from mc.engine import Res
        r = Res()
        r.fail('EXC:' + type(e).__name__, traceback.format_exc(limit=6)[-900:])
    codes = [c for c, _ in r.fails]
    print('replay %s family=%s case=%s' % (prop, body['family'], json.dumps(body['case'], default=str)[:300]))
    for c, d in r.fails:
        print('  FAIL %s: %s' % (c, d[:600]))
    if body['code'] in codes:
        print('VIOLATION property=%s replay=%s' % (prop, path))
        return 1
    if codes:
        print('recorded failure %s not reproduced, but other failures are present' % body['code'])
        return 1
    print('no failure: the recorded violation does not reproduce on this tree')
    return 0


def _tuplify(x):
    if isinstance(x, list):
        return tuple(_tuplify(i) for i in x)
    if isinstance(x, dict):
        return {k: _tuplify(v) for k, v in x.items()}
    return x


def main(argv):
    if not argv:
        print(__doc__)
        return 2
    if argv[0] == 'selftest':
        import stim, matplotlib, numpy  # noqa
        import qce_circuit  # noqa
        from mc import world  # noqa
        for p in PROPS:
            try:
                module_for(p)
            except ModuleNotFoundError as e:
                if 'mc.props' not in str(e):
                    raise
        print('selftest ok; library at', os.path.dirname(qce_circuit.__file__))
        return 0
    if argv[0] == 'replay':
        return replay(argv[1])
    ap = argparse.ArgumentParser()
    ap.add_argument('prop')
    ap.add_argument('--tier', default=None)
    a = ap.parse_args(argv)
    tier = a.tier or os.environ.get('VERIF_TIER') or 'quick'
    if tier not in ('quick', 'thorough'):
        print('bad tier', tier)
        return 2
    seed = int(os.environ.get('VERIF_SEED', '0') or 0)
    try:
        return run_check(a.prop.upper(), tier, seed)
    except Exception:
        import traceback
        traceback.print_exc()
        print('HARNESS-ERROR: the check itself failed')
        return 2


if __name__ == '__main__':
    sys.exit(main(sys.argv[1:]))
