"""Process-wide state of the library, and how the harness owns it (DESIGN.md section 3.2)."""
import os
import sys
import warnings

warnings.filterwarnings('ignore')
os.environ.setdefault('TQDM_DISABLE', '1')
os.environ.setdefault('MPLBACKEND', 'Agg')

from qce_circuit.structure import intrf_circuit_operation as _ico
from qce_circuit.structure import registry_duration as _rd
from qce_circuit.structure.registry_duration import GlobalRegistryKey as K
import qce_circuit  # noqa: F401  (the package installs its own warning filters on import)

warnings.filterwarnings('ignore')

_ORIGINAL_GET = _rd.GlobalDurationRegistry.__dict__['get_registry_at']
_plt = None


def clear_memo():
    """Clears the process-wide start-time memo through the library's own invalidation entry point (or, on trees
    that do not have one, through cache_clear of the two memoised methods)."""
    f = getattr(_ico, 'clear_start_time_cache', None)
    if callable(f):
        f()
        return
    for cls in (_ico.RelationLink, _ico.MultiRelationLink):
        f = cls.__dict__.get('get_start_time')
        if hasattr(f, 'cache_clear'):
            f.cache_clear()


def reset():
    """Between executions only: cleared memo, no override in force, no open figures."""
    clear_memo()
    if _rd.GlobalDurationRegistry.__dict__['get_registry_at'] is not _ORIGINAL_GET:
        _rd.GlobalDurationRegistry.get_registry_at = _ORIGINAL_GET
    global _plt
    if 'matplotlib.pyplot' in sys.modules:
        if _plt is None:
            import matplotlib.pyplot as plt
            _plt = plt
        if _plt.get_fignums():
            _plt.close('all')


def override_in_force() -> bool:
    return _rd.GlobalDurationRegistry.__dict__['get_registry_at'] is not _ORIGINAL_GET


# Global duration configurations (readout, microwave, flux, reset)
def cfg(ro, mw, fl, rs):
    return {K.READOUT: float(ro), K.MICROWAVE: float(mw), K.FLUX: float(fl), K.RESET: float(rs)}


CFG_G = cfg(7, 3, 5, 11)     # generic: pairwise different, no small coincidences
CFG_H = cfg(3, 11, 7, 5)     # another order
CFG_Z = cfg(0, 3, 0, 5)     # zero-length readout and flux operations
CFG_NAMES = {'G': CFG_G, 'H': CFG_H, 'Z': CFG_Z}


def cfg_by_name(name):
    if name == 'D':
        return default_cfg()
    if name == 'Rdo':   # the default configuration with only the readout length changed
        c = default_cfg()
        c[K.READOUT] = 7.0
        return c
    return CFG_NAMES[name]



def default_cfg():
    """The configuration the repository itself puts in force (read from its registry, never hard-coded)."""
    reg = _rd.GlobalDurationRegistryManager.read_config()
    return {k: float(_ORIGINAL_GET(reg, k)) for k in K}


def override(c):
    return _rd.temporary_override_get_registry_at(c)




def close_figures():
    global _plt
    if _plt is None:
        import matplotlib.pyplot as plt
        _plt = plt
    _plt.close('all')
