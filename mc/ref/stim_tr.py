"""Independent translation of a circuit listing into Stim instructions (C08).

Documented table: Reset R, Barrier TICK, Hadamard H, Identity I, CPhase CZ, DispersiveMeasure M, Rx180 X,
Rx90 SQRT_X, Rxm90 SQRT_X_DAG, Ry180 Y, Ry90 SQRT_Y, Rym90 SQRT_Y_DAG, detector / observable / coordinate
shift annotations; every other kind is omitted.  The translation is by exact class.
"""
import stim

TABLE = {
    'Reset': 'R', 'Hadamard': 'H', 'Identity': 'I', 'CPhase': 'CZ', 'DispersiveMeasure': 'M',
    'Rx180': 'X', 'Rx90': 'SQRT_X', 'Rxm90': 'SQRT_X_DAG', 'Ry180': 'Y', 'Ry90': 'SQRT_Y', 'Rym90': 'SQRT_Y_DAG',
}
GROUP = {'CZ': 2}


def unique(seq):
    out = []
    for x in seq:
        if x not in out:
            out.append(x)
    return out


def detector(q, L, m, s, r, o):
    if m is None:
        return ('DETECTOR', (), ())
    M = m - (L + 1)
    if s is None:
        tg = [M] if r is None else [M, M - r]
    else:
        S = s - (L + 1)
        if r is None:
            tg = [M, S]
        elif o is None:
            tg = [M, S, -r]
        else:
            tg = [M, S, -r, -r - o]
    return ('DETECTOR', tuple(('rec', t) for t in tg), (float(q), 0.0))


def observable(L, m):
    if L is None or m is None:
        return ('OBSERVABLE_INCLUDE', (), (0.0,))
    return ('OBSERVABLE_INCLUDE', (('rec', m - (L + 1)),), (0.0,))


def translate_leaf(o):
    """One listed operation -> list of (name, targets, args) with one target group per entry."""
    name = type(o).__name__
    if name in TABLE:
        g = TABLE[name]
        qs = unique(ci.id for ci in o.channel_identifiers)
        k = GROUP.get(g, 1)
        return [(g, tuple(('q', q) for q in qs[i:i + k]), ()) for i in range(0, len(qs), k)]
    if name == 'Barrier':
        return [('TICK', (), ())]
    if name == 'CoordinateShiftOperation':
        return [('SHIFT_COORDS', (), (float(o.space_shift), float(o.time_shift)))]
    if name == 'DetectorOperation':
        return [detector(o.qubit_index, o.last_acquisition_index, o.main_target, o.secondary_target, o.reference_offset, o.secondary_offset)]
    if name == 'LogicalObservableOperation':
        return [observable(o.last_acquisition_index, o.main_target)]
    return []


def direct_blocks(comp):
    """Direct sub-blocks of a block, from the public recursive listing of sub-blocks."""
    subs = comp.get_sub_composite_operations()
    out, skip = [], 0
    for s in subs:
        if skip:
            skip -= 1
            continue
        out.append(s)
        skip = len(s.get_sub_composite_operations())
    return out


def translate_block(comp):
    """Reference translation of a (sub-)circuit: its listing in order, blocks in place, repeated their count."""
    ops = comp.decomposed_operations()
    blocks = direct_blocks(comp)
    first = {}
    empties_before = {}
    for b in blocks:
        inner = b.decomposed_operations()
        if inner:
            first[id(inner[0])] = (b, len(inner))
    out = []
    i = 0
    while i < len(ops):
        o = ops[i]
        if id(o) in first:
            b, n = first[id(o)]
            out.extend(translate_block(b) * b.nr_of_repetitions)
            i += n
        else:
            out.extend(translate_leaf(o))
            i += 1
    return out


def expand(circuit):
    """A stim.Circuit as a flat list of (name, targets, args), REPEAT blocks unrolled, fused targets split."""
    out = []
    for ins in circuit:
        if isinstance(ins, stim.CircuitRepeatBlock):
            out.extend(expand(ins.body_copy()) * ins.repeat_count)
            continue
        name = ins.name
        args = tuple(float(a) for a in ins.gate_args_copy())
        tg = []
        for t in ins.targets_copy():
            tg.append(('rec', t.value) if t.is_measurement_record_target else ('q', t.value))
        if name in ('DETECTOR', 'OBSERVABLE_INCLUDE', 'SHIFT_COORDS', 'TICK'):
            out.append((name, tuple(tg), args))
        else:
            k = 2 if name in ('CZ', 'CX', 'CY', 'SWAP', 'ISWAP') else 1
            if name == 'MZ':
                name = 'M'
            for i in range(0, len(tg), k):
                out.append((name, tuple(tg[i:i + k]), args))
    return out
