"""Reference noise model (C14): idling Pauli channel from T1/T2 and the configured operation durations."""
import math


def pauli_channel(t, t1, t2):
    if t == 0:
        return (0.0, 0.0, 0.0)
    px = 0.25 * (1.0 - math.exp(-t / t1))
    pz = 0.5 * (1.0 - math.exp(-t / t2)) - px
    cl = lambda v: min(max(v, 0.0), 1.0)
    return (cl(px), cl(px), cl(pz))


def block_duration(block, durations):
    """Longest configured duration among the instructions of one TICK-delimited block (unknown gates count as 0)."""
    return max([durations.get(name, 0.0) for name, _, _ in block], default=0.0)


def split_blocks(seq):
    blocks = [[]]
    for it in seq:
        blocks[-1].append(it)
        if it[0] == 'TICK':
            blocks.append([])
    return blocks
