"""Reference model of building, listing, timing and unrolling (C06, also used by C07/C08/C11).

A model circuit is a tree of MNode (leaf) / MComp (block).  It is built from the *program* alone, with the
documented rules:
  * explicit relation -> child of the referenced entry;
  * no relation -> FOLLOWED_BY the channel-sharing earlier entry of maximal relation depth (the model takes
    the last such entry in listing order; callers verify that the implementation took the same one before
    using the model's schedule, see `agrees_as_built`);
  * listing = breadth-first over relation depth, siblings in insertion order, blocks expanded in place;
  * unrolling a block with count n = n-1 further copies, the operations of each copy that carry no relation
    of their own FOLLOWED_BY the latest-ending relation leaf of the block as it is at that moment; counts
    reset to 1; nested blocks unrolled afterwards (so nested counts multiply);
  * times = unique solution of the relation equations; duration of a block = span of its content.
"""
from mc.interp import footprint, chan_match, expected_duration, class_name, rep_count


class MNode:
    comp = False

    def __init__(self, kind, q, dur, tag=''):
        self.kind, self.q, self.dur0, self.tag = kind, q, dur, tag
        self.link = None          # None | (rt, node) | ('multi', [nodes])
        self.parent = None        # tree parent (node) or None for a root
        self.owner = None         # enclosing MComp or None
        self.children = []

    def fp(self):
        return footprint(self.kind, self.q)

    def leaves(self):
        return [self]

    def copy(self, lookup):
        n = MNode(self.kind, self.q, self.dur0, self.tag)
        return n


class MComp:
    comp = True

    def __init__(self, rep=1):
        self.rep = rep
        self.nodes = []           # insertion order
        self.link = None
        self.parent = None
        self.owner = None
        self.children = []

    # ---- structure
    def fp(self):
        out = []
        for n in self.nodes:
            out.extend(n.fp())
        return out

    def depth_of(self, n):
        d = 1
        while n.parent is not None:
            n = n.parent
            d += 1
        return d

    def bfs(self):
        layer = [n for n in self.nodes if n.parent is None]
        out = []
        while layer:
            out.extend(layer)
            nxt = []
            for n in layer:
                nxt.extend(n.children)
            layer = nxt
        return out

    def tree_leaves(self):
        return [n for n in self.bfs() if not n.children]

    def attach(self, n, parent):
        n.owner = self
        n.parent = parent
        if parent is not None:
            parent.children.append(n)
        self.nodes.append(n)

    def add_implicit(self, n):
        """Model of an add without relation."""
        fp = n.fp()
        order = self.bfs()
        cands = [m for m in order if chan_match(m.fp(), fp)]
        if not cands:
            n.link = None
            self.attach(n, None)
            return
        md = max(self.depth_of(m) for m in cands)
        pred = [m for m in cands if self.depth_of(m) == md][-1]
        n.link = ('FB', pred)
        self.attach(n, pred)

    def add_explicit(self, n, rt, target):
        n.link = (rt, target)
        self.attach(n, target)

    def leaves(self):
        """Expanded listing (leaf operations), blocks in place, body once per block (repetition not applied)."""
        out = []
        for n in self.bfs():
            out.extend(n.leaves())
        return out

    def blocks(self):
        out = []
        for n in self.bfs():
            if n.comp:
                out.append(n)
                out.extend(n.blocks())
        return out

    # ---- copy
    def copy(self, lookup=None):
        lookup = {} if lookup is None else lookup
        c = MComp(self.rep)
        for n in self.bfs():
            m = n.copy(lookup)
            lookup[n] = m
            if n.link is None:
                m.link = None
                c.attach(m, None)
            elif n.link[0] == 'multi':
                refs = [lookup[r] for r in n.link[1] if r in lookup]
                m.link = ('multi', refs)
                # tree parent: the copy of the original parent
                c.attach(m, lookup.get(n.parent))
            else:
                tgt = lookup.get(n.link[1])
                m.link = (n.link[0], tgt) if tgt is not None else None
                c.attach(m, tgt)
        return c

    # ---- unrolling
    def unroll(self, sched):
        n = self.rep
        orig = self.copy()
        for _ in range(n - 1):
            other = orig.copy()
            tl = self.tree_leaves()
            sched.reset()
            if tl:
                latest = tl[0]
                for x in tl:
                    if sched.end(x) > sched.end(latest) + 1e-12:
                        latest = x
                multi = ('multi', list(tl))
            else:
                latest, multi = None, None
            moved = other.bfs()
            plan = []
            for m in moved:
                if m.link is None:
                    m.link = multi
                    par = latest
                elif m.link[0] == 'multi':
                    par = m.parent
                else:
                    par = m.link[1]
                plan.append((m, par))
            for m in moved:
                m.children = []
            for m, par in plan:
                self.attach(m, par)
        self.rep = 1
        sched.reset()
        for m in list(self.bfs()):
            if m.comp:
                m.unroll(sched)


class Sched:
    """Unique solution of the relation equations on a model tree."""

    def __init__(self, cfg):
        self.cfg = cfg
        self.memo = {}

    def reset(self):
        self.memo = {}

    def dur(self, n):
        if not n.comp:
            return expected_duration(n.kind, self.cfg)
        ls = n.leaves()
        if not ls:
            return 0.0
        return max(self.end(x) for x in ls) - min(self.start(x) for x in ls)

    def start(self, n):
        k = id(n)
        if k in self.memo:
            return self.memo[k]
        link = n.link
        if link is None:
            s = self.start_of_block_content(n.owner) if n.owner is not None else 0.0
        elif link[0] == 'multi':
            s = max(self.end(x) for x in link[1]) if link[1] else 0.0
        elif link[0] == 'FB':
            s = self.end(link[1])
        elif link[0] == 'JS':
            s = self.start(link[1])
        else:
            s = self.end(link[1]) - self.dur(n)
        self.memo[k] = s
        return s

    def start_of_block_content(self, comp):
        """Operations without relation start with their enclosing block; the block starts where its own relation says."""
        link = comp.link
        if link is None:
            if comp.owner is not None:
                return self.start_of_block_content(comp.owner)
            return 0.0
        if link[0] == 'multi':
            return max(self.end(x) for x in link[1]) if link[1] else 0.0
        if link[0] == 'FB':
            return self.end(link[1])
        if link[0] == 'JS':
            return self.start(link[1])
        return self.end(link[1]) - self.dur(comp)

    def end(self, n):
        if n.comp:
            return self.start_of_block_content(n) + self.dur(n)
        return self.start(n) + self.dur(n)


def model_build(prog, cfg, rep=1):
    c = MComp(rep_count(rep))
    ent = []
    for e in prog:
        if e[0] == 'op':
            n = MNode(e[1], e[2], expected_duration(e[1], cfg), e[4] if len(e) > 4 else '')
            if e[3] is None:
                c.add_implicit(n)
            else:
                c.add_explicit(n, e[3][0], ent[e[3][1]])
            ent.append(n)
        else:
            sb = model_build(e[2], cfg, e[1])
            brel = e[4] if len(e) > 4 else None
            if brel is None:
                c.add_implicit(sb)
            else:
                c.add_explicit(sb, brel[0], ent[brel[1]])
            ent.append(sb)
    return c


def model_rows(comp, sched):
    """(class, channels, start, end) per listed leaf, in model listing order."""
    sched.reset()
    out = []
    for n in comp.leaves():
        out.append((class_name(n.kind), tuple(n.fp()), round(sched.start(n), 9), round(sched.start(n) + sched.dur(n), 9)))
    return out


def impl_rows(ops):
    from mc.ref.schedule import chans_of
    return [(type(o).__name__, chans_of(o), round(o.start_time, 9), round(o.end_time, 9)) for o in ops]
