"""Independent translation of a circuit listing into the OpenQL gate sequence it must execute (C15), and a
recording stand-in for the OpenQL platform (program / kernel objects that only record the calls made on them)."""
from mc.ref.stim_tr import unique, direct_blocks

TABLE = {
    'Reset': 'prepz', 'Hadamard': 'h', 'Identity': 'i', 'DispersiveMeasure': 'measure',
    'Rx180': 'x180', 'Rx90': 'x90', 'Rxm90': 'mx90', 'Ry180': 'y180', 'Ry90': 'y90', 'Rym90': 'my90',
}


def translate_leaf(o):
    name = type(o).__name__
    qs = unique(ci.id for ci in o.channel_identifiers)
    if name in TABLE:
        return [('gate', TABLE[name], tuple(qs))]
    if name == 'Barrier':
        return [('barrier', tuple(qs))]
    if name == 'Wait':
        return [('wait', tuple(qs), o.duration)]
    if name == 'CPhase':
        c, t = o.control_qubit_index, o.target_qubit_index
        return [('cz', (c, t)), ('barrier', tuple(unique([c, t]))), ('gate', 'update_ph', (c,)), ('gate', 'update_ph', (t,))]
    return []


def translate_block(comp, blocks_first=False):
    """Listing order, blocks in place and repeated their count.  blocks_first=True is the documented deviation of
    finding F7a: at every level all nested blocks are executed first and the level's own gates last."""
    ops = comp.decomposed_operations()
    first = {}
    for b in direct_blocks(comp):
        inner = b.decomposed_operations()
        if inner:
            first[id(inner[0])] = (b, len(inner))
    seq_blocks, seq_leaves, out = [], [], []
    i = 0
    while i < len(ops):
        o = ops[i]
        if id(o) in first:
            b, n = first[id(o)]
            part = translate_block(b, blocks_first) * b.nr_of_repetitions
            (seq_blocks if blocks_first else out).extend(part)
            i += n
        else:
            (seq_leaves if blocks_first else out).extend(translate_leaf(o))
            i += 1
    return seq_blocks + seq_leaves if blocks_first else out


class RecKernel:
    def __init__(self, name):
        self.name = name
        self.ops = []

    def gate(self, name, qubits, *a, **k):
        qs = tuple(qubits) if isinstance(qubits, (list, tuple)) else (qubits,)
        if name == 'cz' and len(qs) == 2:      # kernel.gate('cz', [c, t]) is the same call as kernel.cz(c, t)
            self.ops.append(('cz', qs))
        elif name == 'barrier':
            self.ops.append(('barrier', qs))
        else:
            self.ops.append(('gate', name, qs))

    def cz(self, a, b):
        self.ops.append(('cz', (a, b)))

    def barrier(self, qubits):
        self.ops.append(('barrier', tuple(qubits)))

    def wait(self, qubits, duration=0):
        self.ops.append(('wait', tuple(qubits), duration))

    # OpenQL convenience methods that mean the same as a named gate
    def measure(self, q):
        self.ops.append(('gate', 'measure', (q,)))

    def prepz(self, q):
        self.ops.append(('gate', 'prepz', (q,)))

    def hadamard(self, q):
        self.ops.append(('gate', 'h', (q,)))

    def identity(self, q):
        self.ops.append(('gate', 'i', (q,)))

    def __getattr__(self, item):
        # any other kernel call the exporter might make is recorded verbatim (and will not match the reference)
        def rec(*a, **k):
            self.ops.append(('other:' + item, a, tuple(sorted(k.items()))))
        return rec


class RecProgram:
    def __init__(self, name):
        self.name = name
        self.items = []

    def add_kernel(self, k):
        self.items.append(('kernel', k))

    def add_program(self, p):
        self.items.append(('program', p))

    def add_for(self, p, n):
        for _ in range(int(n)):
            self.items.append(('program', p) if isinstance(p, RecProgram) else ('kernel', p))

    def linear(self):
        out = []
        for kind, x in self.items:
            out.extend(x.linear() if kind == 'program' else x.ops)
        return out

    def kernel_objects(self):
        """(name, identity) of every kernel object of the program tree (a kernel repeated by add_for is one object)."""
        out = set()
        for kind, x in self.items:
            if kind == 'program':
                out |= x.kernel_objects()
            else:
                out.add((x.name, id(x)))
        return out

    def duplicate_kernel_names(self):
        """Names carried by more than one kernel object: OpenQL rejects such a program ('duplicate kernel name')."""
        seen = {}
        for name, ident in self.kernel_objects():
            seen.setdefault(name, set()).add(ident)
        return sorted(n for n, ids in seen.items() if len(ids) > 1)

    def names(self):
        out = [('program', self.name)]
        for kind, x in self.items:
            if kind == 'program':
                out.extend(x.names())
            else:
                out.append(('kernel', x.name))
        return out
