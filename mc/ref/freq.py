"""Reference device model of the Surface-17 layout and the frequency-collision predicate (C16, C17).

Independent copy of the device: 9 data qubits (D1-D3, D7-D9 low frequency; D4-D6 high frequency), 8 ancilla qubits
(mid frequency) and the 24 ancilla-data couplings of the rotated distance-3 surface code.
A two-qubit gate brings its higher-frequency ('moving') member down to the level of the lower-frequency member;
both operate at that level while the gate is on."""
LOW, MID, HIGH = 0, 1, 2
LEVEL = {'D1': LOW, 'D2': LOW, 'D3': LOW, 'D7': LOW, 'D8': LOW, 'D9': LOW, 'D4': HIGH, 'D5': HIGH, 'D6': HIGH,
         'X1': MID, 'X2': MID, 'X3': MID, 'X4': MID, 'Z1': MID, 'Z2': MID, 'Z3': MID, 'Z4': MID}
PLAQUETTES = {
    'X1': ['D1', 'D2'], 'X2': ['D2', 'D3', 'D5', 'D6'], 'X3': ['D4', 'D5', 'D7', 'D8'], 'X4': ['D8', 'D9'],
    'Z1': ['D1', 'D2', 'D4', 'D5'], 'Z2': ['D3', 'D6'], 'Z3': ['D4', 'D7'], 'Z4': ['D5', 'D6', 'D8', 'D9'],
}
EDGES = sorted(frozenset((a, d)) for a, ds in PLAQUETTES.items() for d in ds)
EDGES = sorted(tuple(sorted(e)) for e in EDGES)
QUBITS = sorted(LEVEL)
ADJ = {q: set() for q in QUBITS}
for a, b in EDGES:
    ADJ[a].add(b)
    ADJ[b].add(a)
FEEDLINES = {'FL1': ['D9', 'D8', 'X4', 'Z4', 'Z2', 'D6'], 'FL2': ['D3', 'D7', 'D2', 'X3', 'Z1', 'X2', 'Z3', 'D5', 'D4'], 'FL3': ['D1', 'X1']}


def moving(edge):
    a, b = edge
    return a if LEVEL[a] > LEVEL[b] else b


def static(edge):
    a, b = edge
    return b if LEVEL[a] > LEVEL[b] else a


def operating_level(edge):
    return min(LEVEL[edge[0]], LEVEL[edge[1]])


def disjoint(edges):
    qs = [q for e in edges for q in e]
    return len(set(qs)) == len(qs)


def accepted(edges):
    """No qubit in two gates, and no two neighbouring qubits of different gates at the same operating level."""
    if not disjoint(edges):
        return False
    level = {}
    owner = {}
    for i, e in enumerate(edges):
        for q in e:
            level[q] = operating_level(e)
            owner[q] = i
    for a in level:
        for b in ADJ[a]:
            if b in level and owner[a] != owner[b] and level[a] == level[b]:
                return False
    return True


def requires_parking(q, edges):
    """An idle qubit must park iff it neighbours the moving member of an active gate and idles at that gate's operating level."""
    if any(q in e for e in edges):
        return False
    for e in edges:
        if q in ADJ[moving(e)] and LEVEL[q] == operating_level(e):
            return True
    return False
