"""Classical bit-level model of the repetition-code protocol (C09).

Chain d0 a0 d1 a1 ... d(n-1): every qubit is measured once for heralding (0), prepared in its requested state;
in every QEC cycle each ancilla accumulates the parity of its two neighbouring data qubits and is measured (it is
not reset in between); when refocusing is on the data qubits are flipped in every cycle but the last; finally the
data qubits are measured (with zero cycles the ancillas are measured as well, before the data).
Returns the expected outcomes per qubit role, in time order."""


def expected_outcomes(data, anc, cycles, refocus):
    d = len(data)
    dq, aq = list(data), list(anc)
    per_data = [[0] for _ in range(d)]
    per_anc = [[0] for _ in range(d - 1)]
    if cycles == 0:
        for j in range(d - 1):
            per_anc[j].append(aq[j])
    for c in range(cycles):
        for j in range(d - 1):
            aq[j] ^= dq[j] ^ dq[j + 1]
            per_anc[j].append(aq[j])
        if refocus and c < cycles - 1:
            dq = [b ^ 1 for b in dq]
    for i in range(d):
        per_data[i].append(dq[i])
    return per_data, per_anc
