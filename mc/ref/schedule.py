"""Reference model for relation-based scheduling, listing and duration span (C01, C02, C04).

The model is driven by the same program as the implementation.  It decides
  * which relation every entry must carry (the one given, or FOLLOWED_BY an *admissible* implicit
    predecessor: a channel-sharing earlier entry of maximal relation depth; ties are not fixed by the
    statement, so any of them is accepted and the model then follows the implementation's choice),
  * the unique solution of the relation equations (independent solver over the validated links),
  * the span of every (sub-)circuit.
Only public observers of the library are used: operations / decomposed_operations, relation_link,
reference_node, relation_type, start_time, end_time, duration, channel_identifiers,
composite_operations / get_sub_composite_operations, get_last_entry.
"""
from mc.interp import (RT, RT_NAME, CHAN_NAME, footprint, prog_footprint, chan_match, expected_duration)
from qce_circuit.structure.intrf_circuit_operation import RelationType
from qce_circuit.structure.intrf_circuit_operation_composite import ICircuitCompositeOperation

EPS = 1e-9
FB, JS, JE = RelationType.FOLLOWED_BY, RelationType.JOINED_START, RelationType.JOINED_END


def is_comp(o):
    return isinstance(o, ICircuitCompositeOperation)


def chans_of(o):
    return tuple((ci.id, CHAN_NAME[ci.channel]) for ci in o.channel_identifiers)


def qubits_of(o):
    return tuple(ci.id for ci in o.channel_identifiers)


class Solver:
    """Independent solution of the relation equations over the links the implementation reports.
    A composite's end is its reported start-equation value plus its *reported* duration (so that the
    timing verdict does not depend on the span verdict)."""

    def __init__(self):
        self.memo = {}

    def start(self, o, depth=0):
        k = id(o)
        if k in self.memo:
            return self.memo[k]
        if depth > 400:
            raise RecursionError('relation chain does not terminate')
        link = o.relation_link
        ref = link.reference_node
        if ref is None:
            s = 0.0
        else:
            t = link.relation_type
            if t == FB:
                s = self.end(ref, depth + 1)
            elif t == JS:
                s = self.start(ref, depth + 1)
            else:
                s = self.end(ref, depth + 1) - o.duration
        self.memo[k] = s
        return s

    def end(self, o, depth=0):
        return self.start(o, depth) + o.duration


def leaf_sig(o, pos, comp_pos, own_start):
    """Signature of one listed operation relative to its circuit (used for states and copy comparison)."""
    link = o.relation_link
    ref = link.reference_node
    if ref is None:
        tgt, rt = None, None
    else:
        rt = RT_NAME.get(link.relation_type, str(link.relation_type))
        if id(ref) in pos:
            tgt = pos[id(ref)]
        elif id(ref) in comp_pos:
            tgt = ('C', comp_pos[id(ref)])
        else:
            tgt = 'OUT'
    tag = getattr(o, 'acquisition_tag', None)
    return (type(o).__name__, chans_of(o), round(o.duration, 9), tag, rt, tgt)


def structure_sig(ops, comps):
    pos = {id(o): i for i, o in enumerate(ops)}
    cpos = {id(c): i for i, c in enumerate(comps)}
    return tuple(leaf_sig(o, pos, cpos, 0.0) for o in ops)


def canonical_state(circ):
    ops = circ.operations
    comps = circ.composite_operations
    return structure_sig(ops, comps) + tuple(('C', c.nr_of_repetitions) for c in comps)


class Judge:
    def __init__(self, res, cfg, want=('C01', 'C02', 'C04')):
        self.res, self.cfg, self.want = res, cfg, set(want)

    def fail(self, prop, code, detail):
        if prop in self.want:
            self.res.fail(prop + '-' + code, detail)

    # ---------------------------------------------------------------- links (C01)
    def validate_level(self, b, path=(), outer=None, outer_obj=None):
        """Links of the entries of one circuit, by identity with the objects returned by add."""
        prog, ent = b.prog, b.ent
        depth = {}
        fps = []
        ok = True
        for i, e in enumerate(prog):
            obj = ent[i]
            fp = footprint(e[1], e[2]) if e[0] == 'op' else prog_footprint(e[2])
            fps.append(fp)
            link = obj.relation_link
            ref = link.reference_node
            rel = e[3] if e[0] == 'op' else (e[4] if len(e) > 4 else None)
            if rel is not None:
                j = rel[1]
                if ref is not ent[j] or link.relation_type != RT[rel[0]]:
                    self.fail('C01', 'explicit-link', 'entry %s of %r: relation is not the one given (%s to #%d); reported %r' % (path + (i,), prog, rel[0], j, link))
                    ok = False
                pred = j
            else:
                cands = [j for j in range(i) if chan_match(fps[j], fp)]
                if not cands:
                    if outer is not None and outer.reference_node is not None:
                        # the entry belongs to a block that is part of the circuit itself (inserted with its own relation):
                        # once listed, its first operations carry the block's relation
                        if ref is not None and (ref is not outer.reference_node or link.relation_type != outer.relation_type):
                            self.fail('C01', 'block-root', 'entry %s of %r must start with its block (relation %r), reports %r' % (path + (i,), prog, outer, link))
                            ok = False
                        # "no relation starts with its enclosing (sub-)circuit": whatever link the entry carries after listing
                        if outer_obj is not None and abs(obj.start_time - outer_obj.start_time) > EPS:
                            self.fail('C01', 'block-root-time', 'entry %s of %r was added without a relation and must start with its block at %r, starts at %r' % (
                                path + (i,), prog, outer_obj.start_time, obj.start_time))
                            ok = False
                    elif ref is not None:
                        self.fail('C01', 'implicit-root', 'entry %s of %r shares no channel with earlier entries but follows %r' % (path + (i,), prog, link))
                        ok = False
                    pred = None
                else:
                    md = max(depth[j] for j in cands)
                    adm = [j for j in cands if depth[j] == md]
                    j = next((j for j in range(i) if ent[j] is ref), None)
                    if j is None or j not in adm or link.relation_type != FB:
                        self.fail('C01', 'implicit-pred', 'entry %s of %r: must be FOLLOWED_BY one of entries %s (deepest channel-sharing); reported %r (entry %s)' % (path + (i,), prog, adm, link, j))
                        ok = False
                        j = adm[-1] if j is None else j
                    pred = j
            depth[i] = 1 if pred is None else depth[pred] + 1
            if e[0] == 'op':
                want = expected_duration(e[1], self.cfg)
                if abs(obj.duration - want) > EPS:
                    self.fail('C01', 'duration', 'entry %s of %r: duration %r, configured %r' % (path + (i,), prog, obj.duration, want))
        return ok

    def validate_copy(self, copy_comp, orig_built, path):
        """A block returned by add is a copy of the block that was given: compare link structure by position."""
        o_ops = orig_built.circ.operations
        o_comps = orig_built.circ.composite_operations
        c_ops = copy_comp.decomposed_operations()
        c_comps = copy_comp.get_sub_composite_operations()
        so = structure_sig(o_ops, o_comps)
        # first-level operations of the copy carry the block's own link once listed: normalise
        outer = copy_comp.relation_link
        pos = {id(o): i for i, o in enumerate(c_ops)}
        cpos = {id(c): i for i, c in enumerate(c_comps)}
        sc = []
        for o in c_ops:
            s = leaf_sig(o, pos, cpos, 0.0)
            if s[5] == 'OUT' and o.relation_link.reference_node is outer.reference_node and o.relation_link.relation_type == outer.relation_type:
                s = s[:4] + (None, None)
            sc.append(s)
        if tuple(sc) != so:
            self.fail('C01', 'nested-link', 'block %s: relations/durations inside the added block differ from the block given: given %r, added %r' % (path, so, tuple(sc)))
            return False
        return True

    def validate_tree(self, b, path=(), outer=None, outer_obj=None):
        ok = self.validate_level(b, path, outer, outer_obj)
        for i, sb in enumerate(b.subs):
            if sb is not None:
                e = b.prog[i]
                if len(e) > 4 and e[4] is not None:
                    # inserted with add_operation: the block given *is* the block in the circuit
                    ok &= self.validate_tree(sb, path + (i,), outer=b.ent[i].relation_link, outer_obj=b.ent[i])
                else:
                    ok &= self.validate_tree(sb, path + (i,))          # the block as given
                    ok &= self.validate_copy(b.ent[i], sb, path + (i,))  # the block as added
        return ok

    # ---------------------------------------------------------------- times (C01)
    def check_times(self, circ, ops, label):
        sv = Solver()
        for i, o in enumerate(ops):
            try:
                s = sv.start(o)
            except RecursionError as ex:
                self.fail('C01', 'cyclic', '%s: %s' % (label, ex))
                return
            rs, re_, d = o.start_time, o.end_time, o.duration
            if abs(rs - s) > EPS:
                self.fail('C01', 'start', '%s: operation #%d %s reports start %r, its relation %r requires %r' % (label, i, type(o).__name__, rs, o.relation_link, s))
                return
            if abs(re_ - (rs + d)) > EPS:
                self.fail('C01', 'end', '%s: operation #%d end %r != start %r + duration %r' % (label, i, re_, rs, d))
                return
            if d < -EPS:
                self.fail('C01', 'negative-duration', '%s: #%d' % (label, i))
        # composites: start follows their own relation
        for c in circ.composite_operations:
            s = sv.start(c)
            if abs(c.start_time - s) > EPS:
                self.fail('C01', 'block-start', '%s: block reports start %r, relation requires %r' % (label, c.start_time, s))
                return

    # ---------------------------------------------------------------- span (C04)
    def check_span(self, circ, label):
        blocks = [(circ, circ.operations, 'circuit')]
        for k, c in enumerate(circ.composite_operations):
            blocks.append((c, c.decomposed_operations(), 'block#%d' % k))
        for obj, ops, name in blocks:
            d = obj.duration
            if not ops:
                if abs(d) > EPS:
                    self.fail('C04', 'empty', '%s %s: empty but duration %r' % (label, name, d))
                continue
            span = max(o.end_time for o in ops) - min(o.start_time for o in ops)
            if abs(d - span) > EPS:
                code = 'span'
                # Attribution to the listed finding F24 (DESIGN 7.2) by an alternative specification evaluated on this very
                # object: some nested block has content that starts before the block itself, AND the reported duration is
                # exactly the span obtained when every directly contained block counts as [block.start, block.end].
                comps = list(obj.composite_operations) if hasattr(obj, 'composite_operations') else list(obj.get_sub_composite_operations())
                nested = {id(x) for c_ in comps for x in c_.get_sub_composite_operations()}
                top_comps = [c_ for c_ in comps if id(c_) not in nested]
                inside = {id(x) for c_ in comps for x in c_.decomposed_operations()}
                items = [(o.start_time, o.end_time) for o in ops if id(o) not in inside] + [(c_.start_time, c_.end_time) for c_ in top_comps if c_.decomposed_operations()]
                early = any(c_.decomposed_operations() and min(x.start_time for x in c_.decomposed_operations()) < c_.start_time - EPS for c_ in comps)
                if early and items and abs(d - (max(e for _, e in items) - min(s_ for s_, _ in items))) <= EPS:
                    code = 'span@early-start-block'
                self.fail('C04', code, '%s %s: duration %r but operations span %r (starts %r ends %r)' % (
                    label, name, d, span, [o.start_time for o in ops], [o.end_time for o in ops]))
                return
        # follower clause
        comps = {id(c): c for c in circ.composite_operations}
        everything = list(circ.operations) + list(circ.composite_operations)
        for o in everything:
            link = o.relation_link
            ref = link.reference_node
            if ref is not None and id(ref) in comps and link.relation_type == FB:
                inner = ref.decomposed_operations()
                if not inner:
                    continue
                if min(x.start_time for x in inner) >= ref.start_time - EPS:
                    latest = max(x.end_time for x in inner)
                    if o.start_time < latest - EPS:
                        self.fail('C04', 'follower', '%s: %s follows a block whose operations end at %r but starts at %r' % (label, type(o).__name__, latest, o.start_time))
                        return

    # ---------------------------------------------------------------- listing (C02)
    def check_listing(self, b, ops, ops_again, label):
        if len(ops) != len(ops_again) or any(x is not y for x, y in zip(ops, ops_again)):
            self.fail('C02', 'unstable', '%s: listing twice gives different sequences' % label)
        pos = {}
        for i, o in enumerate(ops):
            if id(o) in pos:
                self.fail('C02', 'duplicate', '%s: %s listed twice (#%d and #%d)' % (label, type(o).__name__, pos[id(o)], i))
                return
            pos[id(o)] = i
        expected_ids = []
        for i, e in enumerate(b.prog):
            obj = b.ent[i]
            if e[0] == 'op':
                if id(obj) not in pos:
                    self.fail('C02', 'lost', '%s: entry %d (%s) of %r is not listed' % (label, i, e[1], b.prog))
                    return
                expected_ids.append(id(obj))
                got = (type(obj).__name__, chans_of(obj))
                want = (self.class_of(e), tuple(footprint(e[1], e[2])))
                if got != want:
                    self.fail('C02', 'changed', '%s: entry %d listed as %r, added as %r' % (label, i, got, want))
            else:
                inner = obj.decomposed_operations()
                ids = [id(x) for x in inner]
                if any(k not in pos for k in ids):
                    self.fail('C02', 'lost', '%s: an operation of block entry %d is not listed' % (label, i))
                    return
                ps = [pos[k] for k in ids]
                if ps != list(range(ps[0], ps[0] + len(ps))) if ps else False:
                    self.fail('C02', 'not-in-place', '%s: block entry %d is not expanded in place: positions %r' % (label, i, ps))
                expected_ids.extend(ids)
                # content of the block (as built: listed once) = the leaves of its body
                want = sorted(self.body_leaves(e[2]))
                got = sorted((type(x).__name__, chans_of(x), round(x.duration, 9)) for x in inner)
                if got != want:
                    self.fail('C02', 'block-content', '%s: block entry %d lists %r, body has %r' % (label, i, got, want))
        if len(ops) != len(expected_ids) or set(pos) != set(expected_ids):
            self.fail('C02', 'extra', '%s: %d operations listed, %d added' % (label, len(ops), len(expected_ids)))
        self.check_causal(b.circ, ops, label)

    def check_causal(self, circ, ops, label):
        pos = {id(o): i for i, o in enumerate(ops)}
        comps = {id(c): c for c in circ.composite_operations}
        for i, o in enumerate(ops):
            ref = o.relation_link.reference_node
            if ref is None:
                continue
            if id(ref) in pos:
                if pos[id(ref)] >= i:
                    self.fail('C02', 'causal', '%s: #%d %s is listed before the operation it refers to (#%d)' % (label, i, type(o).__name__, pos[id(ref)]))
                    return
            elif id(ref) in comps:
                inner = [pos[id(x)] for x in ref.decomposed_operations() if id(x) in pos]
                if inner and max(inner) >= i:
                    self.fail('C02', 'causal-block', '%s: #%d %s is listed before the end of the block it refers to' % (label, i, type(o).__name__))
                    return

    def class_of(self, e):
        from mc.interp import class_name
        return class_name(e[1])

    def body_leaves(self, body):
        from mc.interp import class_name
        out = []
        for e in body:
            if e[0] == 'op':
                out.append((class_name(e[1]), tuple(footprint(e[1], e[2])), round(expected_duration(e[1], self.cfg), 9)))
            else:
                out.extend(self.body_leaves(e[2]))
        return out
