"""Reference layout of one experiment cycle (C12, C13): a list of slots, each a (block, role) pair.

For every round count r in the rounds list, in order:  [heralded]? , stabilizer x max(0, r-1) , final
then the calibration block:                             [heralded]? state0 [heralded]? state1 [heralded]? state2
Indices are positions in this list; experiment repetition k is the same layout shifted by k x cycle length.
Ancilla qubits have no final/projected index in a 0-round block (the documented missing slot)."""


def cycle_layout(rounds, heralded, calibration=True):
    slots = []
    for bi, r in enumerate(rounds):
        if heralded:
            slots.append((bi, 'H'))
        for _ in range(max(0, r - 1)):
            slots.append((bi, 'S'))
        slots.append((bi, 'F'))
    if calibration:
        for s in (0, 1, 2):
            if heralded:
                slots.append(('cal', 'H%d' % s))
            slots.append(('cal', 'C%d' % s))
    return slots


def block_span(slots, block):
    idx = [i for i, (b, _) in enumerate(slots) if b == block]
    return (idx[0], idx[-1])


def expected(rounds, heralded, reps, is_ancilla, involved, calibration=True):
    """Expected index lists per category for one qubit (single-cycle positions, then translated)."""
    slots = cycle_layout(rounds, heralded, calibration)
    n = len(slots)
    out = {}

    def tr(pos):
        return [[p + k * n for p in pos] for k in range(reps)]

    for bi, r in enumerate(rounds):
        H = [i for i, (b, role) in enumerate(slots) if b == bi and role == 'H'] if involved else []
        S = [i for i, (b, role) in enumerate(slots) if b == bi and role == 'S'] if (involved and is_ancilla) else []
        F = [i for i, (b, role) in enumerate(slots) if b == bi and role == 'F'] if involved else []
        if is_ancilla and r == 0:
            F = []
        out[('heralded', r)] = tr(H)
        out[('stabilizer+projected', r)] = tr(S + F)
        out[('projected', r)] = tr(F)
    for s in (0, 1, 2):
        out[('cal-heralded', s)] = tr([i for i, (b, role) in enumerate(slots) if b == 'cal' and role == 'H%d' % s] if involved else [])
        out[('cal', s)] = tr([i for i, (b, role) in enumerate(slots) if b == 'cal' and role == 'C%d' % s] if involved else [])
    return n, out
