"""Histories: mutations of one circuit interleaved with observations (C03, C18).

Mutation events
  ('add', kind, q)            add a leaf operation without relation (kinds of mc.interp plus 'Wreg':
                              a Wait whose duration comes from the session's DurationRegistry)
  ('sub', rep, body)          build a block from the body and add it
  ('rel', rt, i)              add Rx90(2) with relation rt to entry i of the current circuit
  ('subreg', body)            add a block whose count comes from the session's RepetitionRegistry; ('setrep', n) sets it
  ('grow', i[, q])            add Reset(q or 0) into the block that is entry i (through the block's own add)
  ('apply',) ('flatten',)     c = c.apply_modifiers() / c = c.flatten()
  ('nest',)                   new circuit; add the current one into it
  ('setreg', v)               DurationRegistry.set_registry_at(key, v)
  ('enter', cfgname) ('exit',) ('exit-raise',)  enter / leave temporary_override_get_registry_at (normally / by an exception)
Observation events
  ('obs', kind)  kind in ops | times | dur | acq | stim | plot | copy | plotnc
"""
from qce_circuit import (DeclarativeCircuit, RelationLink, DurationRegistry, RegistryDurationStrategy, plot_circuit,
                         RepetitionRegistry, RegistryRepetitionStrategy)
from qce_circuit.addon_stim import to_stim
from qce_circuit.structure import circuit_operations as co
from mc import world
from mc.interp import RT, make_op, build
from mc.ref.schedule import leaf_sig

OBS_KINDS = ('ops', 'times', 'dur', 'acq', 'stim', 'copy', 'plot')
QUBITS = (0, 1, 2)


class Session:
    def __init__(self):
        self.c = DeclarativeCircuit()
        self.ent = []
        self.reg = DurationRegistry()
        self.rep_reg = RepetitionRegistry()
        self.rep_reg.set_registry_at('n', 2)
        self.ctx = None
        self.not_restored = None

    # ------------------------------------------------------------ mutations
    def apply(self, ev):
        k = ev[0]
        c = self.c
        if k == 'add':
            kind, q = ev[1], ev[2]
            if kind == 'Wreg':
                op = co.Wait(q, duration_strategy=RegistryDurationStrategy(registry=self.reg, registry_key='w'))
            else:
                op = make_op(kind, q, None, c)
            self.ent.append(c.add(op))
        elif k == 'sub':
            sb = build(ev[2], rep=ev[1])
            self.ent.append(c.add(sb.circ))
        elif k == 'subreg':
            # a block whose repetition count is provided by the session's RepetitionRegistry (initially 2)
            sb = build(ev[1])
            blk = DeclarativeCircuit(repetition_strategy=RegistryRepetitionStrategy(registry=self.rep_reg, registry_key='n'))
            blk.add(sb.circ)
            self.ent.append(c.add(blk))
        elif k == 'setrep':
            self.rep_reg.set_registry_at('n', int(ev[1]))
        elif k == 'rel':
            self.ent.append(c.add(co.Rx90(2, relation=RelationLink(self.ent[ev[2]], RT[ev[1]]))))
        elif k == 'grow':
            # add an operation into an already nested block through the block's own public add
            self.ent[ev[1]].add(make_op('R', ev[2] if len(ev) > 2 else 0, None, c))
        elif k == 'apply':
            self.c = c.apply_modifiers()
        elif k == 'flatten':
            self.c = c.flatten()
        elif k == 'nest':
            top = DeclarativeCircuit()
            self.ent = [top.add(c)]
            self.c = top
        elif k == 'setreg':
            self.reg.set_registry_at('w', float(ev[1]))
        elif k == 'enter':
            self.ctx = world.override(world.cfg_by_name(ev[1]))
            self.ctx.__enter__()
        elif k == 'exit':
            self.ctx.__exit__(None, None, None)
            self.ctx = None
            self.check_restored()
        elif k == 'exit-raise':
            # the with-block is left by an exception (which the user catches): same obligations as a normal exit
            exc = RuntimeError('left by an exception')
            try:
                self.ctx.__exit__(RuntimeError, exc, None)
            except RuntimeError:
                pass
            self.ctx = None
            self.check_restored()
        elif k == 'obs':
            self.observe(ev[1])
        else:
            raise ValueError(ev)

    def check_restored(self):
        """After leaving the temporary override the global durations are the ones that were in force before it."""
        from qce_circuit.structure.registry_duration import GlobalDurationStrategy
        now = {k: float(GlobalDurationStrategy(k).get_variable_duration(None)) for k in world.K}
        if now != world.default_cfg():
            self.not_restored = 'global durations are %r instead of %r' % ({k.name: v for k, v in now.items()}, {k.name: v for k, v in world.default_cfg().items()})

    def close(self):
        if self.ctx is not None:
            self.ctx.__exit__(None, None, None)
            self.ctx = None

    # ------------------------------------------------------------ observations
    def observe(self, kind):
        c = self.c
        if kind == 'ops':
            return c.operations
        if kind == 'times':
            return [(o.start_time, o.end_time) for o in c.operations]
        if kind == 'dur':
            return c.duration
        if kind == 'acq':
            return [list(c.get_acquisition_indices(q)) for q in QUBITS]
        if kind == 'stim':
            return str(to_stim(c))
        if kind == 'copy':
            return c.circuit_structure.copy()
        if kind == 'plot':
            fig, ax = plot_circuit(c)
            world.close_figures()
            return None
        if kind == 'plotnc':
            fig, ax = plot_circuit(c, compact_visualization=False)
            world.close_figures()
            return None
        raise ValueError(kind)

    def vector(self):
        """Full observation vector of the current circuit under the current settings."""
        c = self.c
        first_duration = round(c.duration, 9)     # asked before anything is listed
        ops = c.operations
        comps = c.composite_operations
        pos = {id(o): i for i, o in enumerate(ops)}
        cpos = {id(x): i for i, x in enumerate(comps)}
        rows = []
        for o in ops:
            s = leaf_sig(o, pos, cpos, 0.0)
            rows.append((s[0], s[1], s[4], s[5], round(o.start_time, 9), round(o.end_time, 9)))
        acq = []
        for o in ops:
            if hasattr(o, 'acquisition_index'):
                acq.append((o.acquisition_index, o.circuit_level_acquisition_index))
        per_q = tuple(tuple(int(x) for x in c.get_acquisition_indices(q)) for q in QUBITS)
        return {
            'ops': tuple(rows),
            'duration': round(c.duration, 9),
            'duration-asked-first': first_duration,
            'acq': (tuple(acq), per_q),
            'stim': str(to_stim(c)),
        }


def run_history(events):
    s = Session()
    try:
        for ev in events:
            s.apply(ev)
        v = s.vector()
        v['not-restored'] = s.not_restored
        return v
    finally:
        s.close()


def diff_vectors(a, b):
    """Names the first observable that differs, and how (used for signatures)."""
    out = []
    if a['ops'] != b['ops']:
        ra, rb = a['ops'], b['ops']
        if len(ra) != len(rb):
            out.append(('listing', 'length %d vs %d' % (len(ra), len(rb))))
        else:
            for i, (x, y) in enumerate(zip(ra, rb)):
                if x != y:
                    if x[:2] != y[:2]:
                        out.append(('listing-order', '#%d %r vs %r' % (i, x, y)))
                    elif x[2:4] != y[2:4]:
                        out.append(('relation-target', '#%d %r vs %r' % (i, x, y)))
                    else:
                        out.append(('times', '#%d %r vs %r' % (i, x, y)))
                    break
    if a['duration'] != b['duration']:
        out.append(('duration', '%r vs %r' % (a['duration'], b['duration'])))
    if a.get('duration-asked-first') != b.get('duration-asked-first'):
        out.append(('duration-asked-first', '%r vs %r' % (a.get('duration-asked-first'), b.get('duration-asked-first'))))
    if a['acq'] != b['acq']:
        out.append(('acq-index', '%r vs %r' % (a['acq'], b['acq'])))
    if a['stim'] != b['stim']:
        out.append(('stim', '%r vs %r' % (a['stim'][:200], b['stim'][:200])))
    return out
