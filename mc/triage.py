"""Attribution of a violation to a listed known finding by a counterfactual experiment (DESIGN.md section 6.4).

F2 (value equality of sub-circuits): `CircuitCompositeOperation` compares and hashes by value (relation link,
repetition strategy; graphs always compare equal).  Listing hands the enclosing circuit's link object to
first-level blocks, after which a block can be == its parent or its sibling, and the copy transfer table
(a dict keyed by operations) collides.  A violating history is attributed to F2 only if the *same* history,
executed with sub-circuits compared by identity for the duration of the experiment (harness-side patch of
__eq__/__hash__ inside the checker process, nothing in /repo changes), no longer violates the property.
Any violation that survives the counterfactual is reported as new.
"""
import contextlib

from qce_circuit.structure.intrf_circuit_operation_composite import CircuitCompositeOperation as _CCO

KF_VALUE_EQUALITY = 'composite-value-equality'   # was known finding F2, repaired in /repo (4481396)


@contextlib.contextmanager
def identity_equality_of_blocks():
    saved = {k: _CCO.__dict__.get(k) for k in ('__eq__', '__hash__')}
    _CCO.__eq__ = lambda a, b: a is b
    _CCO.__hash__ = lambda a: id(a)
    try:
        yield
    finally:
        for k, v in saved.items():
            if v is None:
                delattr(_CCO, k)
            else:
                setattr(_CCO, k, v)


def equal_but_distinct_blocks(circ):
    """Causal precondition of F2: two distinct sub-circuit objects (or the circuit and a block) that are == and hash-equal."""
    objs = [circ.circuit_structure] + list(circ.composite_operations)
    out = []
    for i, a in enumerate(objs):
        for b in objs[i + 1:]:
            if a is not b and a == b and hash(a) == hash(b):
                out.append((i, objs.index(b)))
    return out


KF_SHIFT_POSITION = 'coordinate-shift-position'   # was known finding F11, repaired in /repo (b86fa2d)


def shift_only_difference(a, b, is_shift):
    """F11: two sequences differ only in where zero-length coordinate-shift annotations are listed."""
    from collections import Counter
    if a == b:
        return False
    ra, rb = [x for x in a if not is_shift(x)], [x for x in b if not is_shift(x)]
    sa, sb = Counter(repr(x) for x in a if is_shift(x)), Counter(repr(x) for x in b if is_shift(x))
    return ra == rb and sa == sb
