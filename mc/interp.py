"""Build-program interpreter: turns plain event tuples into calls of the documented public API.

Entry forms (JSON-serialisable; lists and tuples are both accepted):
  ('op', kind, q, rel)      kind: short code below; q: first qubit; rel: None | (rt, idx), rt in FB/JS/JE,
                            idx = position of an earlier entry of the same circuit (leaf or block)
  ('sub', rep, body[, mode[, rel]])  body: tuple of entries (relations local to the body); rep: int | ('reg', n);
                            rel: the block's own relation (FB/JS to an earlier entry) - such a block is inserted with add_operation
Measurements take an optional tag: ('op', 'M', q, rel, tag)
"""
from qce_circuit import (
    DeclarativeCircuit, RelationLink, RelationType, FixedDurationStrategy, FixedRepetitionStrategy,
    RegistryRepetitionStrategy, RepetitionRegistry, RegistryDurationStrategy, DurationRegistry,
)
from qce_circuit.structure import circuit_operations as co
from qce_circuit.structure.intrf_circuit_operation import QubitChannel
from qce_circuit.structure.registry_duration import GlobalRegistryKey as K

RT = {'FB': RelationType.FOLLOWED_BY, 'JS': RelationType.JOINED_START, 'JE': RelationType.JOINED_END}
RT_NAME = {v: k for k, v in RT.items()}

MW, RO, FL, ALL = 'MW', 'RO', 'FL', 'ALL'
CHAN_NAME = {QubitChannel.MICROWAVE: MW, QubitChannel.READOUT: RO, QubitChannel.FLUX: FL, QubitChannel.ALL: ALL}


def other(q):
    return 1 - q if q in (0, 1) else 0


# kind -> (class name, channel footprint fn(q) -> [(qubit, chan)], duration spec: global key | float)
KINDS = {
    'X': ('Rx180', lambda q: [(q, MW)], K.MICROWAVE),
    'X90': ('Rx90', lambda q: [(q, MW)], K.MICROWAVE),
    'Xm90': ('Rxm90', lambda q: [(q, MW)], K.MICROWAVE),
    'Y': ('Ry180', lambda q: [(q, MW)], K.MICROWAVE),
    'Y90': ('Ry90', lambda q: [(q, MW)], K.MICROWAVE),
    'Ym90': ('Rym90', lambda q: [(q, MW)], K.MICROWAVE),
    'Xef': ('Rx180ef', lambda q: [(q, MW)], K.MICROWAVE),
    'I': ('Identity', lambda q: [(q, MW)], K.MICROWAVE),
    'H': ('Hadamard', lambda q: [(q, MW)], K.MICROWAVE),
    'VP': ('VirtualPhase', lambda q: [(q, MW)], K.MICROWAVE),
    'Rphi': ('Rphi90', lambda q: [(q, MW)], K.MICROWAVE),
    'R': ('Reset', lambda q: [(q, ALL)], K.RESET),
    'M': ('DispersiveMeasure', lambda q: [(q, RO)], K.READOUT),
    'P': ('VirtualPark', lambda q: [(q, FL)], K.FLUX),
    'Z': ('CPhase', lambda q: [(q, FL), (q, MW), (other(q), FL), (other(q), MW)], K.FLUX),
    'V': ('TwoQubitVirtualPhase', lambda q: [(q, MW), (other(q), MW)], 0.0),
    'B': ('Barrier', lambda q: [(0, ALL), (1, ALL)], 0.5),
    'W': ('Wait', lambda q: [(q, ALL)], 2.25),
    'Wfl': ('Wait', lambda q: [(q, FL)], 0.5),
    'W0': ('Wait', lambda q: [(q, ALL)], 0.0),
}


def make_op(kind, q, link, circ, tag=''):
    if kind[0] == '@':   # catalog kind: '@ClassName' (every field non-default) or '@ClassName:d' (defaults)
        from mc import opcatalog
        name, _, var = kind[1:].partition(':')
        op, _unknown = opcatalog.construct(opcatalog.by_name()[name], q, link, circ, 'default' if var == 'd' else 'nondefault')
        return op
    kw = {} if link is None else {'relation': link}
    name = KINDS[kind][0]
    if kind == 'M':
        return co.DispersiveMeasure(q, acquisition_strategy=circ.get_acquisition_strategy(), acquisition_tag=tag, **kw)
    if kind == 'B':
        b = co.Barrier([0, 1])
        if link is not None:
            b.relation_link = link   # Barrier takes no relation at construction; the public setter is used
        return b
    if kind == 'W':
        return co.Wait(q, duration_strategy=FixedDurationStrategy(2.25), **kw)
    if kind == 'W0':
        return co.Wait(q, duration_strategy=FixedDurationStrategy(0.0), **kw)
    if kind == 'Wfl':
        return co.Wait(q, qubit_channel=QubitChannel.FLUX, duration_strategy=FixedDurationStrategy(0.5), **kw)
    if kind in ('Z', 'V'):
        return getattr(co, name)(q, other(q), **kw)
    return getattr(co, name)(q, **kw)


def expected_duration(kind, cfg):
    d = KINDS[kind][2]
    return float(cfg[d]) if isinstance(d, K) else float(d)


def footprint(kind, q):
    return KINDS[kind][1](q)


def chan_match(c1, c2):
    """Reference relation: same qubit and (same channel or one of them names all channels)."""
    return any(a[0] == b[0] and (a[1] == b[1] or ALL in (a[1], b[1])) for a in c1 for b in c2)


class Built:
    """A circuit built from a program, with the objects returned by every add."""
    __slots__ = ('prog', 'circ', 'ent', 'subs', 'rep', 'registries')

    def __init__(self, prog, circ, ent, subs, rep):
        self.prog, self.circ, self.ent, self.subs, self.rep = prog, circ, ent, subs, rep


_SHARED_REGISTRY = [None]   # one RepetitionRegistry per top-level build: blocks with the same registry-provided count share an entry


def rep_strategy(rep):
    if isinstance(rep, (tuple, list)):
        if _SHARED_REGISTRY[0] is None:
            _SHARED_REGISTRY[0] = RepetitionRegistry()
        reg = _SHARED_REGISTRY[0]
        key = 'n%d' % int(rep[1])
        reg.set_registry_at(key, int(rep[1]))
        return RegistryRepetitionStrategy(registry=reg, registry_key=key)
    return FixedRepetitionStrategy(int(rep))


def bump_registry_counts(prog, by=1):
    """The same program with every registry-provided count raised by `by` (the registry entry 'n<k>' is set accordingly by the caller)."""
    out = []
    for e in prog:
        if e[0] == 'sub':
            rep = e[1]
            if isinstance(rep, (tuple, list)):
                rep = ('reg', int(rep[1]) + by)
            out.append((e[0], rep, bump_registry_counts(e[2], by)) + tuple(e[3:]))
        else:
            out.append(e)
    return tuple(out)


def registry_counts(prog):
    out = set()
    for e in prog:
        if e[0] == 'sub':
            if isinstance(e[1], (tuple, list)):
                out.add(int(e[1][1]))
            out |= registry_counts(e[2])
    return out


def rep_count(rep):
    return int(rep[1]) if isinstance(rep, (tuple, list)) else int(rep)


def build(prog, rep=1, acq_from=None, root=None, observe=None, share_links=False, via_structure=False):
    """Builds a DeclarativeCircuit from a program through DeclarativeCircuit.add only.
    A block entry may carry a fourth element 'top': its measurements are then created against the registry
    of the outermost circuit instead of the block's own registry."""
    if root is None:
        _SHARED_REGISTRY[0] = None
    circ = DeclarativeCircuit() if rep == 1 else DeclarativeCircuit(repetition_strategy=rep_strategy(rep))
    root = root or circ
    ent, subs = [], []
    links = {}   # share_links: entries that name the same relation use one RelationLink object (as library code does)
    for e in prog:
        if e[0] == 'op':
            kind, q, rel = e[1], e[2], e[3]
            tag = e[4] if len(e) > 4 else ''
            if rel is None:
                link = None
            elif share_links:
                key = (rel[0], rel[1])
                if key not in links:
                    links[key] = RelationLink(ent[rel[1]], RT[rel[0]])
                link = links[key]
            else:
                link = RelationLink(ent[rel[1]], RT[rel[0]])
            ent.append(circ.add(make_op(kind, q, link, acq_from or circ, tag)))
            subs.append(None)
            if observe is not None:
                observe(circ)
        elif e[0] == 'sub':
            mode = e[3] if len(e) > 3 else None
            brel = e[4] if len(e) > 4 else None
            sb = build(e[2], rep=e[1], acq_from=(root if mode == 'top' else acq_from), root=root, observe=observe,
                       share_links=share_links, via_structure=via_structure)
            if brel is not None:
                # a block with a relation of its own: DeclarativeCircuit.add copies a block and drops its relation, so the
                # structure is given its relation and inserted with add_operation (it is then part of the circuit itself, not a copy)
                structure = sb.circ.circuit_structure
                structure.relation_link = RelationLink(ent[brel[1]], RT[brel[0]])
                ent.append(circ.add_operation(structure))
            else:
                # via_structure: hand the block's structure (an ICircuitCompositeOperation) to add instead of the DeclarativeCircuit
                ent.append(circ.add(sb.circ.circuit_structure if via_structure else sb.circ))
            subs.append(sb)
            if observe is not None:
                observe(circ)
        else:
            raise ValueError('unknown entry %r' % (e,))
    built = Built(tuple(prog), circ, ent, subs, rep)
    built.registries = _SHARED_REGISTRY[0]     # the RepetitionRegistry that provides ('reg', n) counts of this build, if any
    return built


def prog_footprint(prog):
    out = []
    for e in prog:
        if e[0] == 'op':
            out.extend(footprint(e[1], e[2]))
        else:
            out.extend(prog_footprint(e[2]))
    return out


def count_events(prog):
    n = 0
    for e in prog:
        n += 1
        if e[0] == 'sub':
            n += count_events(e[2])
    return n


def leaf_kinds(prog, mult=True):
    """Multiset (as sorted list) of (kind, q) leaves; repetition counts multiply when mult."""
    out = []
    for e in prog:
        if e[0] == 'op':
            out.append((e[1], e[2]))
        else:
            inner = leaf_kinds(e[2], mult)
            out.extend(inner * (rep_count(e[1]) if mult else 1))
    return out


def class_name(kind):
    return KINDS[kind][0]
