"""Evidence files: what a run actually covered (schema: /root/.vp/EVIDENCE.schema.json)."""
import json
import os

HOME = os.environ.get('VERIF_HOME', os.path.dirname(os.path.dirname(os.path.abspath(__file__))))


def build(prop, mod, fams, tier, seed, merged, wall, nviol, known_matched):
    level = mod.LEVEL
    cov = {
        'samples': merged['samples'][:6] or [{'note': 'no sample recorded'}],
        'exhaustive': True,
        'executions': merged['executions'],
        'distinct_outcomes': merged['distinct_outcomes'],
        'digest': '%016x' % merged['digest'],
        'caps_hit': [],
        'per_family': merged['per_family'],
        'bounds': {f.name: f.describe(tier) for f in fams},
        'fail_counts': merged['fail_counts'],
        'known_findings_matched': known_matched,
        'counters': merged['extra'],
        'workers': merged['workers'],
        'rule': ' ;; '.join('%s: %s' % (f.name, f.rule) for f in fams),
    }
    if level == 'model_checking':
        cov.update({
            'states': merged['states'],
            'transitions': merged['transitions'],
            'traces_validated_against_impl': merged['validated'],
        })
    # exploration-style keys are always given (required for exploration, welcome otherwise)
    cov.update({
        'evaluations': merged['executions'],
        'distinct_nontrivial': merged['distinct_nontrivial'],
    })
    return {
        'property_id': prop,
        'tier': tier,
        'seed': seed,
        'level': level,
        'coverage': cov,
        'assumptions': list(getattr(mod, 'ASSUMPTIONS', [])),
        'wall_s': round(wall, 2),
        'violations': nviol,
    }


def write(prop, ev):
    # runs against a scratch copy (VERIF_REPO_SRC, seeded-change campaigns) never overwrite the evidence of /repo
    d = os.path.join(HOME, 'evidence' if not os.environ.get('VERIF_REPO_SRC') else 'evidence-scratch')
    os.makedirs(d, exist_ok=True)
    path = os.path.join(d, prop + '.json')
    tmp = path + '.tmp'
    with open(tmp, 'w') as f:
        json.dump(ev, f, indent=1, default=str)
        f.write('\n')
    os.replace(tmp, path)
    return path
