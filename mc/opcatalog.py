"""Catalog of every concrete operation class the library defines, obtained by introspection, and a generic
constructor that sets every init field to a non-default value (so that a copy that forgets a field is seen)."""
import dataclasses
import inspect

from qce_circuit.structure import circuit_operations as co
from qce_circuit.addon_stim import circuit_operations as so
from qce_circuit.structure.intrf_circuit_operation import ICircuitOperation, QubitChannel
from qce_circuit.structure.registry_duration import FixedDurationStrategy

_MODULES = (co, so)


def classes():
    out = []
    seen = set()
    for m in _MODULES:
        for name, cls in sorted(vars(m).items()):
            if inspect.isclass(cls) and issubclass(cls, ICircuitOperation) and not inspect.isabstract(cls) \
                    and cls.__module__ == m.__name__ and dataclasses.is_dataclass(cls) and name not in seen:
                seen.add(name)
                out.append(cls)
    return out


def by_name():
    return {c.__name__: c for c in classes()}


NONDEFAULT = {
    'qubit_channel': QubitChannel.FLUX,
    'acquisition_tag': 'a',
    'time_shift': 3,
    'space_shift': 2,
    'last_acquisition_index': 5,
    'main_target': 4,
    'secondary_target': 3,
    'reference_offset': 2,
    'secondary_offset': 1,
}


class Unconstructible(Exception):
    pass


def init_fields(cls):
    return [f for f in dataclasses.fields(cls) if f.init]


def construct(cls, q, link, circ, variant='nondefault'):
    """Instance of cls on qubit q (two-qubit: q and 1-q; multi: [0,1]); variant 'default' leaves optional fields alone."""
    kw = {}
    unknown = []
    for f in init_fields(cls):
        n = f.name
        if n == 'qubit_index':
            kw[n] = q
        elif n == 'control_qubit_index':
            kw[n] = q
        elif n == 'target_qubit_index':
            kw[n] = 1 - q if q in (0, 1) else 0
        elif n == 'qubit_indices':
            kw[n] = [0, 1]
        elif n == 'relation':
            if link is not None:
                kw[n] = link
        elif n == 'acquisition_strategy':
            kw[n] = circ.get_acquisition_strategy()
        elif n == 'duration_strategy':
            if variant == 'nondefault':
                kw[n] = FixedDurationStrategy(2.25)
        elif n in NONDEFAULT:
            if variant == 'nondefault':
                kw[n] = NONDEFAULT[n]
        else:
            has_default = f.default is not dataclasses.MISSING or f.default_factory is not dataclasses.MISSING
            if not has_default:
                raise Unconstructible('%s.%s' % (cls.__name__, n))
            unknown.append(n)
    op = cls(**kw)
    if link is not None and 'relation' not in kw:
        op.relation_link = link   # classes that take no relation at construction (Barrier family): public setter
    return op, unknown


def public_fields(op):
    """Every dataclass field a copy must preserve (the relation, the re-targeted acquisition strategy and
    the per-instance acquisition identifier are compared separately)."""
    out = {}
    for f in dataclasses.fields(op):
        if f.name in ('relation', 'acquisition_strategy') or f.name.startswith('_'):
            continue
        v = getattr(op, f.name)
        out[f.name] = list(v) if isinstance(v, (list, tuple)) else v
    return out
