import warnings; warnings.filterwarnings('ignore')
import dataclasses, inspect
from qce_circuit import *
import qce_circuit.structure.circuit_operations as co, qce_circuit.addon_stim.circuit_operations as so
from qce_circuit.structure.intrf_circuit_operation import ICircuitOperation, RelationLink, RelationType as RT, QubitChannel as QC
from qce_circuit.structure.intrf_circuit_operation_composite import CircuitCompositeOperation
classes = sorted({c for m in (co,so) for _,c in inspect.getmembers(m, inspect.isclass) if issubclass(c, ICircuitOperation) and not inspect.isabstract(c) and c is not CircuitCompositeOperation}, key=lambda c:c.__name__)
print(len(classes), [c.__name__ for c in classes])
c0 = DeclarativeCircuit()
anchor = Rx180(5)
def nondefault(cls):
    kw={}
    for f in dataclasses.fields(cls):
        if not f.init: continue
        n=f.name
        if n in ('qubit_index',): kw[n]=1
        elif n=='control_qubit_index': kw[n]=1
        elif n=='target_qubit_index': kw[n]=0
        elif n=='qubit_indices': kw[n]=[1,0]
        elif n=='relation': kw[n]=RelationLink(anchor, RT.JOINED_END)
        elif n=='duration_strategy': kw[n]=FixedDurationStrategy(2.25)
        elif n=='qubit_channel': kw[n]=QC.FLUX
        elif n=='acquisition_strategy': kw[n]=c0.get_acquisition_strategy()
        elif n=='acquisition_tag': kw[n]='tg'
        elif n in ('time_shift',): kw[n]=3
        elif n=='space_shift': kw[n]=2
        elif n in ('last_acquisition_index','main_target','secondary_target','reference_offset','secondary_offset'): kw[n]={'last_acquisition_index':7,'main_target':5,'secondary_target':4,'reference_offset':3,'secondary_offset':2}[n]
        else: kw[n]='?'+n
    return kw
for cls in classes:
    kw=nondefault(cls)
    o=cls(**kw)
    if 'relation' not in kw: o.relation_link = RelationLink(anchor, RT.JOINED_END)
    anchor2=Rx180(5)
    cp=o.copy(relation_transfer_lookup={anchor:anchor2})
    diffs=[]
    if type(cp) is not type(o): diffs.append('type')
    for f in dataclasses.fields(cls):
        if f.name in ('relation','_acquisition_identifier','acquisition_strategy'): continue
        if getattr(o,f.name)!=getattr(cp,f.name): diffs.append((f.name,getattr(o,f.name),getattr(cp,f.name)))
    if [ (ci.id,ci.channel) for ci in o.channel_identifiers]!=[(ci.id,ci.channel) for ci in cp.channel_identifiers]: diffs.append('channels')
    if o.duration!=cp.duration: diffs.append(('duration',o.duration,cp.duration))
    if cp.relation_link.reference_node is not anchor2 or cp.relation_link.relation_type!=RT.JOINED_END: diffs.append(('link', cp.relation_link))
    print(cls.__name__, 'OK' if not diffs else diffs)
