import warnings; warnings.filterwarnings('ignore')
import itertools, collections, time, sys
from qce_circuit import *
from qce_circuit.structure.circuit_operations import *
from qce_circuit.structure.intrf_circuit_operation import RelationLink, MultiRelationLink, RelationType as RT, QubitChannel as QC
from qce_circuit.structure.registry_duration import temporary_override_get_registry_at, GlobalRegistryKey as K
def clear():
    RelationLink.get_start_time.cache_clear(); MultiRelationLink.get_start_time.cache_clear()
CFG = {K.READOUT:7.,K.MICROWAVE:3.,K.FLUX:5.,K.RESET:11.}
# kinds: name -> (ctor(q, rel, circ), channels(q), duration)
def chans(kind,q):
    o=1-q
    return {'X':[(q,'MW')],'R':[(q,'ALL')],'M':[(q,'RO')],'P':[(q,'FL')],'Z':[(q,'FL'),(q,'MW'),(o,'FL'),(o,'MW')],'B':[(0,'ALL'),(1,'ALL')],'W':[(q,'ALL')],'V':[(q,'MW'),(o,'MW')]}[kind]
DUR={'X':3.,'R':11.,'M':7.,'P':5.,'Z':5.,'B':.5,'W':2.25,'V':0.}
def ctor(kind,q,rel,c):
    kw = {} if rel is None else {'relation':rel}
    o=1-q
    if kind=='X': return Rx180(q,**kw)
    if kind=='R': return Reset(q,**kw)
    if kind=='M': return DispersiveMeasure(q, acquisition_strategy=c.get_acquisition_strategy(), **kw)
    if kind=='P': return VirtualPark(q,**kw)
    if kind=='Z': return CPhase(q,o,**kw)
    if kind=='B':
        b = Barrier([0,1]); 
        if rel is not None: b.relation_link = rel
        return b
    if kind=='W': return Wait(q, duration_strategy=FixedDurationStrategy(2.25), **kw)
    if kind=='V': return TwoQubitVirtualPhase(q,o,**kw)
def match(c1,c2):
    return any(a[0]==b[0] and (a[1]==b[1] or 'ALL' in (a[1],b[1])) for a in c1 for b in c2)
ATOMS=[(k,q) for k in 'XRMPZBWV' for q in (0,1) if not(k=='B' and q==1)]
def steps(i):
    for k,q in ATOMS:
        yield (k,q,None)
        for r in range(i):
            for t in (RT.FOLLOWED_BY, RT.JOINED_START, RT.JOINED_END):
                yield (k,q,(t,r))
def programs(n):
    def rec(prefix):
        if len(prefix)==n: yield prefix; return
        for s in steps(len(prefix)):
            yield from rec(prefix+[s])
    for L in range(1,n+1):
        def rec2(prefix,L=L):
            if len(prefix)==L: yield prefix; return
            for s in steps(len(prefix)): yield from rec2(prefix+[s])
        yield from rec2([])
N=int(sys.argv[1]); t0=time.time(); n=0; bad=collections.Counter(); ex={}
with temporary_override_get_registry_at(CFG):
  for p in programs(N):
    n+=1; clear()
    c=DeclarativeCircuit(); objs=[]
    for (k,q,rel) in p:
        link = None if rel is None else RelationLink(objs[rel[1]], rel[0])
        objs.append(c.add(ctor(k,q,link,c)))
    ops=c.operations
    # C02: listing is a permutation of added, causal
    if sorted(map(id,ops))!=sorted(map(id,objs)): bad['C02-set']+=1; ex.setdefault('C02-set',p)
    pos={id(o):i for i,o in enumerate(ops)}
    # shadow model: depth & expected times
    depth={}; st={}; en={}; ok=True
    for i,(k,q,rel) in enumerate(p):
        o=objs[i]; d=DUR[k]
        if abs(o.duration-d)>1e-9: bad['dur']+=1
        lk=o.relation_link; ref=lk.reference_node
        if rel is None:
            cands=[j for j in range(i) if match(chans(*p[j][:2]),chans(k,q))]
            if not cands:
                if ref is not None: bad['C01-implicit-should-be-root']+=1; ex.setdefault('C01-implicit-should-be-root',p); ok=False;break
                depth[i]=1; st[i]=0.0
            else:
                md=max(depth[j] for j in cands); adm=[j for j in cands if depth[j]==md]
                j=next((j for j in range(i) if objs[j] is ref),None)
                if j is None or j not in adm or lk.relation_type!=RT.FOLLOWED_BY:
                    bad['C01-implicit-pred']+=1; ex.setdefault('C01-implicit-pred',(p,j,adm)); ok=False;break
                depth[i]=depth[j]+1; st[i]=en[j]
        else:
            t,j=rel
            if ref is not objs[j] or lk.relation_type!=t: bad['C01-explicit-link-changed']+=1; ex.setdefault('C01-explicit-link-changed',p); ok=False;break
            depth[i]=depth[j]+1
            st[i]= en[j] if t==RT.FOLLOWED_BY else st[j] if t==RT.JOINED_START else en[j]-d
        en[i]=st[i]+d
        if pos.get(id(o),-1) < (pos.get(id(ref),-1) if ref is not None else -1): bad['C02-causal']+=1; ex.setdefault('C02-causal',p)
    if not ok: continue
    for i,o in enumerate(objs):
        if abs(o.start_time-st[i])>1e-9 or abs(o.end_time-en[i])>1e-9:
            bad['C01-time']+=1; ex.setdefault('C01-time',(p,i,o.start_time,st[i])); break
    # C04
    span = max(en.values())-min(st.values())
    if abs(c.duration-span)>1e-9: bad['C04-span']+=1; ex.setdefault('C04-span',(p,c.duration,span))
    if ops != c.operations: bad['C02-stable']+=1
print(n,'programs',time.time()-t0,'s',dict(bad))
for k,v in ex.items(): print(k,v)
