import warnings; warnings.filterwarnings('ignore')
from qce_circuit import *
from qce_circuit.structure.circuit_operations import *
from qce_circuit.addon_openql import to_openql
from qce_circuit.addon_openql.platform_manager import PlatformManager
import openql as ql, os, glob
c = DeclarativeCircuit()
c.add(Rx180(0))
sub = DeclarativeCircuit(repetition_strategy=FixedRepetitionStrategy(2))
sub.add(Ry90(1)); sub.add(CPhase(0,1))
c.add(sub)
c.add(Rx90(0))
c.add(Wait(0, duration_strategy=FixedDurationStrategy(40)))
c.add(DispersiveMeasure(0, acquisition_strategy=c.get_acquisition_strategy()))
p = to_openql(c, circuit_id='vt_prog')
print(type(p), [m for m in dir(p) if not m.startswith('_')])
try:
    p.compile()
    out = PlatformManager.openql_output_directory()
    for f in sorted(glob.glob(str(out)+'/vt_prog*')): print(f)
    print(open(str(out)+'/vt_prog.qasm').read())
except Exception as e:
    print('compile error', repr(e)[:500])
