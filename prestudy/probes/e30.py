import warnings; warnings.filterwarnings('ignore')
import os; os.environ['TQDM_DISABLE']='1'
import stim, math, itertools, collections
from qce_circuit import *
from qce_circuit.language import InitialStateContainer
from qce_circuit.addon_stim import to_stim, apply_noise
from qce_circuit.addon_stim.noise_settings_manager import NoiseSettings, QubitNoiseModelParameters, OperationDurationParameters
from qce_circuit.connectivity import QubitIDObj as Q
from qce_circuit.library.repetition_code.circuit_constructors import construct_repetition_code_circuit
S=InitialStateEnum
def split(circ):
    out=[]
    for inst in circ.flattened():
        name=inst.name; args=tuple(inst.gate_args_copy()); tg=inst.targets_copy()
        if name in ('DETECTOR','OBSERVABLE_INCLUDE','SHIFT_COORDS','TICK') or not tg:
            out.append((name,args,tuple(str(t) for t in tg))); continue
        step=2 if name in ('CZ',) else 1
        for i in range(0,len(tg),step): out.append((name,args,tuple(t.value for t in tg[i:i+step])))
    return out
def pauli(t,t1,t2):
    if t==0: return (0,0,0)
    px=0.25*(1-math.exp(-t/t1)); pz=0.5*(1-math.exp(-t/t2))-px
    cl=lambda v:min(max(v,0.0),1.0)
    return (cl(px),cl(px),cl(pz))
bad=collections.Counter(); n=0
for d,cyc in ((2,0),(2,1),(2,3),(3,2)):
    c=construct_repetition_code_circuit(qec_cycles=cyc, initial_state=InitialStateContainer.from_ordered_list([S.ZERO]*d))
    sc=to_stim(c)
    for (t1,t2),ae,(dmz,dcz) in itertools.product(((10e-6,15e-6),(1e-6,5e-6)),(0.0,0.02),((400e-9,60e-9),(10e-9,60e-9))):
        ns=NoiseSettings(default_t1=t1,default_t2=t2,default_assignment_error=ae,
             individual_noise={Q('A'):QubitNoiseModelParameters(t1=5e-6,t2=5e-6,assignment_error=0.1)},
             operation_durations=OperationDurationParameters(duration_mz=dmz,duration_cz=dcz,duration_h=30e-9,duration_x=20e-9))
        imap={1:Q('A')}
        noisy=apply_noise(sc, imap, noise_settings=ns); n+=1
        base=split(sc); got=split(noisy)
        stripped=[(nm,() if nm=='M' else a,t) for nm,a,t in got if nm!='PAULI_CHANNEL_1']
        if stripped!=base: bad['strip']+=1
        # measurement errors
        for nm,a,t in got:
            if nm=='M':
                exp=0.1 if t[0]==1 else ae
                if abs(a[0]-exp)>1e-12: bad['meas']+=1
            if nm=='PAULI_CHANNEL_1':
                if not all(0<=x<=1 for x in a) or sum(a)>1+1e-12: bad['range']+=1
        # block structure
        durs={'M':dmz,'CZ':dcz,'H':30e-9,'X':20e-9}
        qubits=sorted({t[0] for nm,a,t in base if nm not in('DETECTOR','OBSERVABLE_INCLUDE','SHIFT_COORDS','TICK') for t in [t]}|{x for nm,a,t in base if nm=='CZ' for x in t})
        # walk got: split into blocks at TICK (TICK included at end of block)
        blocks=[[]]
        for it in base:
            blocks[-1].append(it)
            if it[0]=='TICK': blocks.append([])
        pos=0
        for blk in blocks:
            tmax=max([durs.get(nm,0.0) for nm,a,t in blk],default=0)
            pre=got[pos:pos+len(qubits)]; pos+=len(qubits)
            body=got[pos:pos+len(blk)]; pos+=len(blk)
            post=got[pos:pos+len(qubits)]; pos+=len(qubits)
            for grp in (pre,post):
                if sorted(t[0] for nm,a,t in grp)!=qubits or any(nm!='PAULI_CHANNEL_1' for nm,a,t in grp): bad['wrap-shape']+=1; break
                for nm,a,t in grp:
                    T1,T2=(5e-6,5e-6) if t[0]==1 else (t1,t2)
                    exp=pauli(0.5*tmax,T1,T2)
                    if any(abs(x-y)>1e-12 for x,y in zip(a,exp)): bad['wrap-prob']+=1
        if pos!=len(got): bad['len']+=1
print(n,'cases',dict(bad))
