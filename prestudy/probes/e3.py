import warnings; warnings.filterwarnings('ignore')
from qce_circuit import *
from qce_circuit.structure.intrf_circuit_operation import RelationLink, RelationType
def desc(c):
    ops = c.operations
    idx = {id(o): i for i, o in enumerate(ops)}
    out = []
    for o in ops:
        ref = o.relation_link.reference_node
        out.append((type(o).__name__, [ (ci.id, ci.channel.name) for ci in o.channel_identifiers], o.relation_link.relation_type.name, idx.get(id(ref), type(ref).__name__ if ref is not None else None), o.start_time, o.end_time))
    return out

def build(observe):
    outer = DeclarativeCircuit()
    s1 = DeclarativeCircuit(); s1.add(Rx180(0)); 
    s2 = DeclarativeCircuit(); s2.add(Ry90(1)); s2.add(Ry90(1))
    a = outer.add(s1)
    b = outer.add(s2)
    outer.add(Rx90(2, relation=RelationLink(a, RelationType.FOLLOWED_BY)))
    if observe:
        outer.operations
    top = DeclarativeCircuit()
    top.add(outer)
    return top
for obs in (False, True):
    t = build(obs)
    print(obs)
    for d in desc(t): print('   ', d)
