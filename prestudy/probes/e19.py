import warnings; warnings.filterwarnings('ignore')
import os; os.environ['TQDM_DISABLE']='1'
import matplotlib; matplotlib.use('Agg')
import matplotlib.pyplot as plt
import itertools, collections, time, sys
from qce_circuit import *
from qce_circuit.structure.circuit_operations import *
from qce_circuit.structure.intrf_circuit_operation import RelationLink, MultiRelationLink, RelationType as RT
from qce_circuit.structure.registry_duration import GlobalDurationRegistry, GlobalRegistryKey as K
from qce_circuit.addon_stim import to_stim
ORIG = GlobalDurationRegistry.get_registry_at
def reset():
    RelationLink.get_start_time.cache_clear(); MultiRelationLink.get_start_time.cache_clear()
    GlobalDurationRegistry.get_registry_at = ORIG
    plt.close('all')
CFG = {K.READOUT:7.,K.MICROWAVE:3.,K.FLUX:5.,K.RESET:11.}
class World:
    def __init__(s):
        s.reg = DurationRegistry(); s.c = DeclarativeCircuit(); s.entries=[]; s.stack=[]; s.live=s.c
    def ev(s, e):
        k=e[0]
        if k=='add':
            kind,q = e[1],e[2]
            if kind=='X': o=Rx180(q)
            elif kind=='R': o=Reset(q)
            elif kind=='M': o=DispersiveMeasure(q, acquisition_strategy=s.c.get_acquisition_strategy())
            elif kind=='W': o=Wait(q, duration_strategy=RegistryDurationStrategy(s.reg,'k'))
            elif kind=='B': o=Barrier([0,1])
            s.entries.append(s.live.add(o))
        elif k=='sub':
            rep=e[1]; sub=DeclarativeCircuit(repetition_strategy=FixedRepetitionStrategy(rep))
            for kind,q in e[2]:
                sub.add(Rx180(q) if kind=='X' else Reset(q) if kind=='R' else DispersiveMeasure(q, acquisition_strategy=s.c.get_acquisition_strategy()))
            s.entries.append(s.live.add(sub))
        elif k=='rel':  # add op relating to entry i
            i=e[1] % max(1,len(s.entries))
            if s.entries: s.entries.append(s.live.add(Rx90(2, relation=RelationLink(s.entries[i], e[2]))))
        elif k=='apply': s.live = s.live.apply_modifiers()
        elif k=='flatten': s.live = s.live.flatten()
        elif k=='nest':
            top=DeclarativeCircuit(); top.add(s.live); s.live=top; s.entries=[]
        elif k=='setreg': s.reg.set_registry_at('k', e[1])
        elif k=='enter':
            def tmp(self_, key): return CFG.get(key)
            s.stack.append(GlobalDurationRegistry.get_registry_at)
            # use the library's context manager semantics
            from qce_circuit.structure.registry_duration import temporary_override_get_registry_at
            cm = temporary_override_get_registry_at(CFG); cm.__enter__(); s.stack[-1]=cm
        elif k=='exit':
            if s.stack: s.stack.pop().__exit__(None,None,None)
        elif k=='obs':
            s.observe(e[1])
    def observe(s, what):
        c=s.live
        if what=='ops': return [type(o).__name__ for o in c.operations]
        if what=='times': return [(o.start_time,o.end_time) for o in c.operations]
        if what=='dur': return c.duration
        if what=='acq': return [ (o.acquisition_index,o.circuit_level_acquisition_index) for o in c.operations if isinstance(o,DispersiveMeasure)]
        if what=='stim': return str(to_stim(c))
        if what=='plot':
            f,a=plot_circuit(c); plt.close(f); return None
    def full(s):
        c=s.live
        ops=c.operations; idx={id(o):i for i,o in enumerate(ops)}
        return ([ (type(o).__name__, tuple(ci.id for ci in o.channel_identifiers), o.relation_link.relation_type.name, idx.get(id(o.relation_link.reference_node), 'C' if o.relation_link.reference_node is not None else None), o.start_time, o.end_time) for o in ops], c.duration,
                [ (o.acquisition_index,o.circuit_level_acquisition_index) for o in ops if isinstance(o,DispersiveMeasure)], str(to_stim(c)))
MUT = [('add','X',0),('add','R',1),('add','M',0),('add','W',0),('add','B',0),
       ('sub',2,(('X',0),)),('sub',1,(('X',0),('M',1))),('rel',0,RT.FOLLOWED_BY),('rel',1,RT.JOINED_END),
       ('apply',),('flatten',),('nest',),('setreg',4.0),('enter',),('exit',)]
OBS = [('obs',w) for w in ('ops','times','dur','acq','stim','plot')]
def run(hist):
    reset(); w=World()
    try:
        for e in hist: w.ev(e)
        r=w.full()
    except Exception as ex:
        r=('EXC',type(ex).__name__)
    finally:
        while w.stack: w.stack.pop().__exit__(None,None,None)
    return r
DM=int(sys.argv[1]); t0=time.time(); n=0; bad=collections.Counter(); ex={}
for L in range(1,DM+1):
  for muts in itertools.product(MUT, repeat=L):
    ref=run(list(muts))
    for pos in range(1,L+1):
        for o in OBS:
            h=list(muts[:pos])+[o]+list(muts[pos:]); n+=1
            got=run(h)
            if got!=ref:
                key=(o[1], tuple(m[0] for m in muts[pos:]))
                bad[key]+=1; ex.setdefault(key,(h,))
print(n,'histories',time.time()-t0,'s; violating',sum(bad.values()),'shapes',len(bad))
for k,v in sorted(bad.items(), key=lambda kv:-kv[1])[:40]: print(v,k, ex[k][0])
