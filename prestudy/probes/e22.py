import warnings; warnings.filterwarnings('ignore')
import os; os.environ['TQDM_DISABLE']='1'
import itertools, time, collections, stim, numpy as np
from qce_circuit import *
from qce_circuit.language import InitialStateContainer
from qce_circuit.addon_stim import to_stim
from qce_circuit.structure.intrf_circuit_operation import RelationLink, MultiRelationLink
from qce_circuit.library.repetition_code.circuit_constructors import construct_repetition_code_circuit
from qce_circuit.library.repetition_code.circuit_components import RepetitionCodeDescription
S=InitialStateEnum
def clear(): RelationLink.get_start_time.cache_clear(); MultiRelationLink.get_start_time.cache_clear()
def protocol(d, data, anc, cycles, refocus):
    # index layout chain: data at even, ancilla at odd; measurement order: heralded all 0..2d-2 ; per cycle ancillas ; final: (cycles==0: ancillas 'final') data
    rec=[0]*(2*d-1)
    dq=list(data); aq=list(anc)
    if cycles==0:
        rec += aq
    for c in range(cycles):
        for j in range(d-1): aq[j]^=dq[j]^dq[j+1]
        rec += aq
        if refocus and c<cycles-1: dq=[b^1 for b in dq]
    rec += dq
    return rec
t=time.time(); n=0; bad=collections.Counter(); ex={}
for d in (2,3):
  for cycles in range(0,6):
    for refocus in (True,False):
      for bits in itertools.product((0,1), repeat=2*d-1):
        data=bits[:d]; anc=bits[d:]
        clear(); n+=1
        init=InitialStateContainer.from_ordered_list([S.ONE if b else S.ZERO for b in data],[S.ONE if b else S.ZERO for b in anc])
        desc=RepetitionCodeDescription.from_chain(2*d-1, qubit_refocusing=refocus)
        c=construct_repetition_code_circuit(qec_cycles=cycles, description=desc, initial_state=init)
        for variant in ('asis','applied','flat'):
            if variant=='applied': c=c.apply_modifiers()
            if variant=='flat': c=c.flatten()
            sc=to_stim(c)
            exp=protocol(d,data,anc,cycles,refocus)
            # determinism via tableau simulator
            sim=stim.TableauSimulator(); got=[]; det=True
            for inst in sc.flattened():
                if inst.name=='M':
                    for tg in inst.targets_copy():
                        if sim.peek_z(tg.value)==0: det=False
                sim.do(inst)
            got=[int(b) for b in sim.current_measurement_record()]
            if not det: bad['nondeterministic-meas',variant]+=1
            if got!=exp: bad['record',variant]+=1; ex.setdefault(('record',variant),(d,cycles,refocus,bits,got,exp))
            if sc.num_detectors!=(d-1)*(cycles+1): bad['ndet',variant]+=1; ex.setdefault(('ndet',variant),(d,cycles,sc.num_detectors))
            try: sc.detector_error_model()
            except Exception as e: bad['dem',variant]+=1; ex.setdefault(('dem',variant),(d,cycles,refocus,bits,str(e)[:100]))
print(n,'inputs',time.time()-t,'s',dict(bad))
for k,v in ex.items(): print(k,v)
