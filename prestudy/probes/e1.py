import warnings; warnings.filterwarnings('ignore')
from qce_circuit import *
from qce_circuit.structure.registry_duration import temporary_override_get_registry_at, GlobalRegistryKey
from qce_circuit.structure.intrf_circuit_operation import RelationLink, MultiRelationLink

def times(c):
    return [(type(o).__name__, o.start_time, o.end_time) for o in c.operations]

# (a) registry duration change
reg = DurationRegistry()
s = RegistryDurationStrategy(reg, 'k')
c = DeclarativeCircuit()
c.add(Wait(0, duration_strategy=s))
c.add(Rx180(0))
print('a before', times(c), c.duration)
reg.set_registry_at('k', 5.0)
print('a after ', times(c), c.duration)

# (b) global override
c = DeclarativeCircuit()
c.add(Rx180(0)); c.add(Rx180(0)); c.add(Rx180(0))
print('b default', times(c))
with temporary_override_get_registry_at({GlobalRegistryKey.MICROWAVE: 3.0, GlobalRegistryKey.READOUT: 2., GlobalRegistryKey.FLUX:1., GlobalRegistryKey.RESET:2.}):
    print('b override', times(c))
c2 = DeclarativeCircuit()
c2.add(Rx180(0)); c2.add(Rx180(0)); c2.add(Rx180(0))
with temporary_override_get_registry_at({GlobalRegistryKey.MICROWAVE: 3.0, GlobalRegistryKey.READOUT: 2., GlobalRegistryKey.FLUX:1., GlobalRegistryKey.RESET:2.}):
    print('b override fresh', times(c2))
print('b after override fresh', times(c2))

# (c) apply modifiers after observing
def build():
    c = DeclarativeCircuit()
    sub = DeclarativeCircuit(repetition_strategy=FixedRepetitionStrategy(3))
    sub.add(Rx180(0))
    s = c.add(sub)
    c.add(Ry90(0))
    return c
c = build(); print('c pre', times(c), c.duration)
c.apply_modifiers(); print('c post(observed before)', times(c), c.duration)
c = build(); c.apply_modifiers(); print('c post(fresh)', times(c), c.duration)
