import warnings; warnings.filterwarnings('ignore')
import os; os.environ['TQDM_DISABLE']='1'
import itertools, collections, time
from qce_circuit import *
from qce_circuit.language import InitialStateContainer
from qce_circuit.connectivity import QubitIDObj as Q
from qce_circuit.structure.circuit_operations import *
from qce_circuit.structure.intrf_circuit_operation import RelationLink, MultiRelationLink
from qce_circuit.structure.registry_duration import temporary_override_get_registry_at, GlobalRegistryKey as K
from qce_circuit.library.repetition_code.circuit_constructors import *
from qce_circuit.library.repetition_code.circuit_components import RepetitionCodeDescription
from qce_circuit.library.repetition_code.repetition_code_connectivity import Repetition9Code, Repetition9Round6Code, Repetition5Round4Code
from qce_circuit.library.state_calibration.circuit_constructors import construct_calibration_circuit
from qce_circuit.library.state_calibration.circuit_components import CalibrationDescription, CalibrateType
S=InitialStateEnum
def clear(): RelationLink.get_start_time.cache_clear(); MultiRelationLink.get_start_time.cache_clear()
def overlaps(c):
    bych=collections.defaultdict(list)
    for o in c.operations:
        s,e=o.start_time,o.end_time
        if e-s<=0: continue
        for ci in o.channel_identifiers:
            chs=['RO','MW','FL'] if ci.channel.name=='ALL' else [{'READOUT':'RO','MICROWAVE':'MW','FLUX':'FL'}[ci.channel.name]]
            for ch in set(chs): bych[(ci.id,ch)].append((s,e,type(o).__name__))
    bad=[]
    for k,iv in bych.items():
        iv.sort()
        for (s1,e1,n1),(s2,e2,n2) in zip(iv,iv[1:]):
            if s2<e1-1e-9: bad.append((k,n1,s1,e1,n2,s2,e2))
    return bad
chains={ 'R9': ['D1','X1','D2','X2','D3','Z2','D6','Z4','D5','Z1','D4','Z3','D7','X3','D8','X4','D9'],
         'R5': ['D3','Z2','D6','Z4','D5','Z1','D4','X3','D7'] }
inputs=[]
for lay,name in ((Repetition9Code(),'R9'),(Repetition9Round6Code(),'R9'),(Repetition5Round4Code(),'R5')):
    ch=chains[name]
    for i in range(0,len(ch),2):
        for j in range(i+2,len(ch),2):
            inputs.append((type(lay).__name__, lay, ch[i:j+1]))
print(len(inputs),'sub-chains')
vals=(1.,2.,3.)
cfgs=[dict(zip((K.READOUT,K.MICROWAVE,K.FLUX,K.RESET),v)) for v in itertools.product(vals,repeat=4)]
t=time.time(); n=0; bad=collections.Counter(); ex={}
for lname,lay,ids in inputs:
    if len(ids)>7: continue
    qids=[Q(x) for x in ids]
    for cyc in (0,1,2,4):
        clear()
        desc=RepetitionCodeDescription.from_connectivity(qids, lay)
        d=len(desc.data_qubit_ids)
        c=construct_repetition_code_circuit(qec_cycles=cyc, description=desc, initial_state=InitialStateContainer.from_ordered_list([S.ZERO]*d))
        ca=construct_repetition_code_circuit(qec_cycles=cyc, description=desc, initial_state=InitialStateContainer.from_ordered_list([S.ZERO]*d)).apply_modifiers()
        for cfg in cfgs:
            clear(); n+=1
            with temporary_override_get_registry_at(cfg):
                for tag,cc in (('built',c),('unrolled',ca)):
                    b=overlaps(cc)
                    if b: bad[(lname,tag)]+=1; ex.setdefault((lname,tag),(ids,cyc,list(cfg.values()),b[0]))
for ty in (CalibrateType.QUBIT, CalibrateType.QUTRIT):
    for nq in (1,2,3):
        qs=[Q(f'D{i}') for i in range(nq)]
        clear(); c=construct_calibration_circuit(CalibrationDescription(_qubit_ids=qs,_qubit_index_map={q:i for i,q in enumerate(qs)},_type=ty))
        for cfg in cfgs:
            clear(); n+=1
            with temporary_override_get_registry_at(cfg):
                b=overlaps(c)
                if b: bad[('calib',ty.name)]+=1; ex.setdefault(('calib',ty.name),(nq,list(cfg.values()),b[0]))
print(n,'evaluations',time.time()-t,'s',dict(bad))
for k,v in ex.items(): print(k,v)
