import warnings; warnings.filterwarnings('ignore')
import itertools, collections, time, sys
from qce_circuit import *
from qce_circuit.structure.circuit_operations import *
from qce_circuit.structure.intrf_circuit_operation import RelationLink, MultiRelationLink
from qce_circuit.structure.intrf_circuit_operation_composite import CircuitCompositeOperation
from qce_circuit.addon_stim import to_stim
def clear():
    RelationLink.get_start_time.cache_clear(); MultiRelationLink.get_start_time.cache_clear()
# program = nested list: ('op', kind, q) | ('sub', rep, [items])
KINDS = {
 'X': lambda q,c: Rx180(q), 'R': lambda q,c: Reset(q), 'M': lambda q,c: DispersiveMeasure(q, acquisition_strategy=c.get_acquisition_strategy(), acquisition_tag='t%d'%q),
 'Z': lambda q,c: CPhase(q, 1-q), 'B': lambda q,c: Barrier([0,1]), 'P': lambda q,c: VirtualPark(q),
}
def build(items, rep=1, root=None):
    c = DeclarativeCircuit(repetition_strategy=FixedRepetitionStrategy(rep))
    reg = root if root is not None else c
    for it in items:
        if it[0]=='op':
            c.add(KINDS[it[1]](it[2], reg))
        else:
            c.add(build(it[2], it[1], reg))
    return c
def sig(c):
    return [(type(o).__name__, tuple((ci.id, ci.channel.name) for ci in o.channel_identifiers), o.duration) for o in c.operations]
def tsig(c):
    return [(type(o).__name__, tuple((ci.id, ci.channel.name) for ci in o.channel_identifiers), o.start_time, o.end_time) for o in c.operations]
def expected_unroll(items, rep=1):
    out=[]
    for it in items:
        if it[0]=='op': out.append(it)
        else: out.extend(expected_unroll(it[2], it[1]))
    return out*rep
ops = [('op',k,q) for k in 'XRMZBP' for q in (0,1) if not (k=='B' and q==1)]
def programs(depth, maxlen):
    # all item lists up to maxlen with nesting depth
    def items(d):
        for o in ops: yield o
        if d>0:
            for rep in (1,2,3):
                for n in (1,2):
                    for body in itertools.product(list(items(d-1)), repeat=n):
                        yield ('sub', rep, list(body))
    pool = list(items(depth))
    for n in range(1, maxlen+1):
        for p in itertools.product(pool, repeat=n):
            yield list(p)
t=time.time(); n=0; bad=collections.Counter(); ex={}
for p in programs(1, 2):
    n+=1
    clear()
    try:
        c = build(p)
        pre = sig(c)
        st_pre = str(to_stim(c).flattened())
        c2 = c.apply_modifiers()
        clear()
        post = sig(c2)
        exp = [ (type(KINDS[k](q,c)).__name__) for (_,k,q) in expected_unroll(p)]
        if [x[0] for x in post] != exp: bad['C06-listing']+=1; ex.setdefault('C06-listing',(p,[x[0] for x in post],exp))
        st_post = str(to_stim(c2).flattened())
        if sorted(st_pre.split('\n')) != sorted(st_post.split('\n')): bad['C08-multiset']+=1; ex.setdefault('C08-multiset',(p,st_pre,st_post))
        if st_pre != st_post: bad['C08-identical']+=1; ex.setdefault('C08-identical',(p,st_pre,st_post))
        # acquisition indices
        ms = [o for o in c2.operations if isinstance(o, DispersiveMeasure)]
        if [m.circuit_level_acquisition_index for m in ms] != list(range(len(ms))): bad['C07-circuit']+=1; ex.setdefault('C07-circuit',(p,[m.circuit_level_acquisition_index for m in ms]))
        for q in (0,1):
            mq=[m.acquisition_index for m in ms if m.qubit_index==q]
            if mq != list(range(len(mq))): bad['C07-qubit']+=1; ex.setdefault('C07-qubit',(p,q,mq))
        t_post = tsig(c2)
        c3 = c2.flatten(); clear()
        if tsig(c3)!=t_post: bad['C11-order/schedule']+=1; ex.setdefault('C11-order/schedule',(p,t_post,tsig(c3)))
        if sorted(map(str,sig(c3)))!=sorted(map(str,post)): bad['C11-multiset']+=1; ex.setdefault('C11-multiset',(p,))
    except Exception as e:
        bad['EXC '+type(e).__name__]+=1; ex.setdefault('EXC '+type(e).__name__,(p,repr(e)[:200]))
print(n,'programs',time.time()-t,'s'); print(bad)
for k,v in ex.items(): print(k, v, '\n')
