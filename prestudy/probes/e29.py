import warnings; warnings.filterwarnings('ignore')
import sys; sys.argv=['x','0']
src=open('e19.py').read().split("DM=int")[0]
exec(src)
import itertools, collections, time
# two observations, L<=2
t0=time.time(); n=0; bad=collections.Counter(); ex={}
for L in (1,2):
  for muts in itertools.product(MUT, repeat=L):
    ref=run(list(muts))
    for p1 in range(1,L+1):
      for p2 in range(p1,L+1):
        for o1 in OBS:
          for o2 in OBS:
            h=list(muts); h.insert(p2,o2); h.insert(p1,o1); n+=1
            got=run(h)
            if got!=ref:
                key=(o1[1],o2[1],tuple(m[0] for m in muts))
                bad[key]+=1; ex.setdefault(key,h)
print(n,'histories',time.time()-t0,'s; violating',sum(bad.values()),'shapes',len(bad))
for k,v in sorted(bad.items(), key=lambda kv:-kv[1])[:25]: print(v,k,ex[k])
