import warnings; warnings.filterwarnings('ignore')
import itertools, time
from qce_circuit.connectivity.connectivity_surface_code import Surface17Layer, get_requires_parking, on_moving_side
from qce_circuit.connectivity.mapping.gate_sequence_generator import GateSequenceGenerator
from qce_circuit.connectivity.intrf_connectivity_gate_sequence import Operation
from qce_circuit.connectivity.intrf_connectivity_surface_code import FrequencyGroup
L = Surface17Layer()
edges = L.edge_ids
lvl = {FrequencyGroup.LOW:0, FrequencyGroup.MID:1, FrequencyGroup.HIGH:2}
f = {q.id: lvl[L.get_frequency_group_identifier(q).id] for q in L.qubit_ids}
adj = {q.id:set() for q in L.qubit_ids}
for e in edges:
    a,b = [q.id for q in e.qubit_ids]; adj[a].add(b); adj[b].add(a)
def ref_accept(es):
    qs = [q.id for e in es for q in e.qubit_ids]
    if len(set(qs)) != len(qs): return False
    level = {}
    for e in es:
        a,b=[q.id for q in e.qubit_ids]; l=min(f[a],f[b]); level[a]=l; level[b]=l
    for a in level:
        for b in adj[a]:
            if b in level and level[a]==level[b]:
                # same gate partners are neighbours at same level by construction: exclude
                same = any(set([a,b])==set(q.id for q in e.qubit_ids) for e in es)
                if not same: return False
    return True
t=time.time(); n=0; bad=[]
for k in (1,2,3):
    for es in itertools.combinations(edges,k):
        ops=[Operation.type_gate(e) for e in es]
        got = GateSequenceGenerator.get_mutually_allowed(ops, L)
        exp = ref_accept(es)
        n+=1
        if got!=exp: bad.append((es,got,exp))
print(n, 'subsets', time.time()-t, 's; mismatches', len(bad))
for b in bad[:10]: print(b)
# parking
def ref_park(q, es):
    qs = set(x.id for e in es for x in e.qubit_ids)
    if q in qs: return False
    for e in es:
        a,b=[x.id for x in e.qubit_ids]
        hi,lo = (a,b) if f[a]>f[b] else (b,a)
        if q in adj[hi] and f[q]==f[lo]: return True
    return False
badp=[]; n=0
for k in (1,2):
    for es in itertools.combinations(edges,k):
        for q in L.qubit_ids:
            got = bool(get_requires_parking(q, list(es), L)); exp = ref_park(q.id, es); n+=1
            if got!=exp: badp.append((q,es,got,exp))
print(n,'park cases; mismatches', len(badp)); 
for b in badp[:10]: print(b)
