import warnings; warnings.filterwarnings('ignore')
import os; os.environ['TQDM_DISABLE']='1'
import itertools, collections, time, sys
from qce_circuit import *
from qce_circuit.structure.circuit_operations import *
from qce_circuit.structure.intrf_circuit_operation import RelationLink, MultiRelationLink, RelationType as RT
from qce_circuit.structure.intrf_circuit_operation_composite import CircuitCompositeOperation
from qce_circuit.structure.registry_duration import temporary_override_get_registry_at, GlobalRegistryKey as K
def clear(): RelationLink.get_start_time.cache_clear(); MultiRelationLink.get_start_time.cache_clear()
CFG={K.READOUT:7.,K.MICROWAVE:3.,K.FLUX:5.,K.RESET:11.}
ATOMS=[('X',0),('X',1),('R',0),('R',1),('B',0)]
BODIES=[[('X',0)],[('R',1)],[('X',0),('R',1)],[('R',0),('X',0)],[('B',0),('X',1)]]
def mk(k,q,rel=None):
    kw={} if rel is None else {'relation':rel}
    if k=='X': return Rx180(q,**kw)
    if k=='R': return Reset(q,**kw)
    b=Barrier([0,1]); 
    if rel is not None: b.relation_link=rel
    return b
def steps(i):
    for a in ATOMS:
        yield ('op',a,None)
        for r in range(i):
            for t in RT: yield ('op',a,(t,r))
    for bi in range(len(BODIES)):
        for rep in (1,2): yield ('sub',bi,rep)
def progs(n):
    def rec(p,L):
        if len(p)==L: yield p; return
        for s in steps(len(p)): yield from rec(p+[s],L)
    for L in range(1,n+1): yield from rec([],L)
def build(p):
    c=DeclarativeCircuit(); ent=[]
    for s in p:
        if s[0]=='op':
            (k,q),rel=s[1],s[2]
            link=None if rel is None else RelationLink(ent[rel[1]],rel[0])
            ent.append(c.add(mk(k,q,link)))
        else:
            sub=DeclarativeCircuit(repetition_strategy=FixedRepetitionStrategy(s[2]))
            for k,q in BODIES[s[1]]: sub.add(mk(k,q))
            ent.append(c.add(sub))
    return c,ent
def sig(c, rel0=True):
    ops=c.operations; idx={id(o):i for i,o in enumerate(ops)}
    t0=min([o.start_time for o in ops]) if ops else 0
    out=[]
    for o in ops:
        ref=o.relation_link.reference_node
        tgt = None if ref is None else idx.get(id(ref), ('C', type(ref).__name__))
        out.append((type(o).__name__, tuple(ci.id for ci in o.channel_identifiers), o.relation_link.relation_type.name if ref is not None else None, tgt if not isinstance(tgt,tuple) else 'C', round(o.start_time-t0,9), round(o.end_time-t0,9)))
    return out
def eqcheck(c):
    # relation equations on reported values
    for o in c.operations:
        lk=o.relation_link; ref=lk.reference_node
        if ref is None:
            if abs(o.start_time)>1e-9: return ('root-nonzero',o)
            continue
        t=lk.relation_type
        exp= ref.end_time if t==RT.FOLLOWED_BY else ref.start_time if t==RT.JOINED_START else ref.end_time-o.duration
        if abs(o.start_time-exp)>1e-9: return ('eq',type(o).__name__,o.start_time,exp)
    return None
N=int(sys.argv[1]); bad=collections.Counter(); ex={}; n=0; t=time.time()
with temporary_override_get_registry_at(CFG):
  for p in progs(N):
    n+=1; clear()
    try:
        c,ent=build(p)
        e=eqcheck(c)
        if e: bad['C01-eq']+=1; ex.setdefault('C01-eq',(p,e))
        s0=sig(c)
        clear()
        # nest copy
        c1,_=build(p); top=DeclarativeCircuit(); top.add(c1); clear()
        s1=sig(top)
        if s1!=s0: bad['C05-nest']+=1; ex.setdefault('C05-nest',(p,s0,s1))
        # unroll
        c2,_=build(p); names_pre=collections.Counter()
        for s in p:
            if s[0]=='op': names_pre[s[1][0]]+=1
            else:
                for k,q in BODIES[s[1]]: names_pre[k]+=s[2]
        c2a=c2.apply_modifiers(); clear()
        got=collections.Counter({'Rx180':0})
        got=collections.Counter('X' if type(o).__name__=='Rx180' else 'R' if type(o).__name__=='Reset' else 'B' for o in c2a.operations)
        if got!=names_pre: bad['C06-count']+=1; ex.setdefault('C06-count',(p,dict(got),dict(names_pre)))
        e=eqcheck(c2a)
        if e: bad['C01-eq-unrolled']+=1; ex.setdefault('C01-eq-unrolled',(p,e))
        sA=sig(c2a); c2b=c2a.apply_modifiers(); clear()
        if sig(c2b)!=sA: bad['C06-idem']+=1; ex.setdefault('C06-idem',(p,))
        # nest the unrolled circuit (copy with multi links)
        top2=DeclarativeCircuit(); top2.add(c2a); clear()
        if sig(top2)!=sA: bad['C05-nest-unrolled']+=1; ex.setdefault('C05-nest-unrolled',(p,sA,sig(top2)))
    except Exception as e_:
        bad['EXC '+type(e_).__name__]+=1; ex.setdefault('EXC '+type(e_).__name__,(p,repr(e_)[:200]))
print(n,'programs',time.time()-t,'s',dict(bad))
for k,v in ex.items(): print(k,v,'\n')
