import warnings; warnings.filterwarnings('ignore')
import itertools, collections, time
from qce_circuit.connectivity.connectivity_surface_code import Surface17Layer
from qce_circuit.connectivity.intrf_connectivity_surface_code import FrequencyGroup
from qce_circuit.library.repetition_code.repetition_code_connectivity import Repetition9Code, Repetition9Round6Code, Repetition5Round4Code
from qce_circuit.library.repetition_code.circuit_components import RepetitionCodeDescription, CompositeRepetitionCodeDescription
L=Surface17Layer(); lvl={FrequencyGroup.LOW:0,FrequencyGroup.MID:1,FrequencyGroup.HIGH:2}
f={q.id:lvl[L.get_frequency_group_identifier(q).id] for q in L.qubit_ids}
adj={q.id:set() for q in L.qubit_ids}
for e in L.edge_ids:
    a,b=[q.id for q in e.qubit_ids]; adj[a].add(b); adj[b].add(a)
def ref_park(q, es):
    qs=set(x.id for e in es for x in e.qubit_ids)
    if q in qs: return False
    for e in es:
        a,b=[x.id for x in e.qubit_ids]; hi,lo=(a,b) if f[a]>f[b] else (b,a)
        if q in adj[hi] and f[q]==f[lo]: return True
    return False
bad=collections.Counter(); ex={}; n=0; t=time.time()
for lay in (Repetition5Round4Code(), Repetition9Round6Code(), Repetition9Code()):
    inv=lay.involved_qubit_ids
    gate_q=[q for i in range(lay.gate_sequence_count) for e in lay.get_gate_sequence_at_index(i).edge_ids for q in e.qubit_ids]
    pool=[]; [pool.append(q) for q in gate_q if q not in pool]
    for k in range(1,5):
        for sub in itertools.combinations(pool,k):
            n+=1
            d=RepetitionCodeDescription.from_connectivity(list(sub), lay)
            if sorted(d.circuit_channel_map.keys())!=list(range(len(sub))): bad['map']+=1
            if len(d.gate_sequences)!=lay.gate_sequence_count: bad['layers']+=1
            for i,g in enumerate(d.gate_sequences):
                full=lay.get_gate_sequence_at_index(i)
                exp=[e for e in full.edge_ids if all(q in sub for q in e.qubit_ids)]
                if g.edge_ids!=exp: bad['gates']+=1; ex.setdefault('gates',(sub,i,g.edge_ids,exp))
                parks=[o.identifier for o in g.park_operations]
                need=[q for q in L.qubit_ids if ref_park(q.id, g.edge_ids)]
                if any(q not in parks for q in need): bad['park-missing']+=1; ex.setdefault('park-missing',(sub,i))
                if any(p in [q for e in g.edge_ids for q in e.qubit_ids] for p in parks): bad['park-and-gate']+=1
                pi=d.get_park_sequence_indices(i)
                exp_pi=sorted(d.get_index(q) for q in need if q in sub)
                if sorted(pi)!=exp_pi: bad['park-idx']+=1; ex.setdefault('park-idx',(sub,i,pi,exp_pi))
print(n,'subsets',time.time()-t,'s',dict(bad))
for k,v in ex.items(): print(k,v)
