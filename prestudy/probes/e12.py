import warnings; warnings.filterwarnings('ignore')
import itertools, collections
from qce_circuit import *
from qce_circuit.language import InitialStateContainer
from qce_circuit.structure.circuit_operations import *
from qce_circuit.structure.intrf_circuit_operation import RelationLink, MultiRelationLink
from qce_circuit.structure.registry_duration import temporary_override_get_registry_at, GlobalRegistryKey as K
from qce_circuit.library.repetition_code.circuit_constructors import *
from qce_circuit.library.repetition_code.circuit_components import RepetitionCodeDescription
from qce_circuit.addon_stim import to_stim
S=InitialStateEnum
def clear():
    RelationLink.get_start_time.cache_clear(); MultiRelationLink.get_start_time.cache_clear()
def overlaps(c):
    ops = c.operations
    iv = []
    for o in ops:
        iv.append((o, o.start_time, o.end_time, o.channel_identifiers))
    bad = []
    for i,(a,s1,e1,c1) in enumerate(iv):
        for (b,s2,e2,c2) in iv[i+1:]:
            if e1-s1<=0 or e2-s2<=0: continue
            if any(x==y for x in c1 for y in c2):
                if s1 < e2-1e-9 and s2 < e1-1e-9:
                    bad.append((type(a).__name__, s1,e1, type(b).__name__, s2,e2, c1, c2))
    return bad
cfgs = [ {K.READOUT:2.,K.MICROWAVE:1.,K.FLUX:1.,K.RESET:2.}, {K.READOUT:7.,K.MICROWAVE:3.,K.FLUX:5.,K.RESET:11.}, {K.READOUT:1.,K.MICROWAVE:4.,K.FLUX:2.,K.RESET:.5}, {K.READOUT:3.,K.MICROWAVE:1.,K.FLUX:6.,K.RESET:1.}]
for cfg in cfgs:
  for d in (2,3):
    for cyc in (0,1,2,3,4,5):
        for refocus in (True, False):
            clear()
            with temporary_override_get_registry_at(cfg):
                init = InitialStateContainer.from_ordered_list([S.ZERO]*d)
                desc = RepetitionCodeDescription.from_chain(2*d-1, qubit_refocusing=refocus)
                c = construct_repetition_code_circuit(qec_cycles=cyc, description=desc, initial_state=init)
                b = overlaps(c)
                c2 = c.apply_modifiers()
                clear()
                b2 = overlaps(c2)
                if b or b2:
                    print('cfg', list(cfg.values()), 'd',d,'cyc',cyc,'refocus',refocus,'overlaps', len(b), len(b2), (b+b2)[0])
print('done')
