import warnings; warnings.filterwarnings('ignore')
import matplotlib; matplotlib.use('Agg')
import matplotlib.pyplot as plt, time
from qce_circuit import *
from qce_circuit.structure.circuit_operations import *
from qce_circuit.structure.intrf_circuit_operation import RelationLink, MultiRelationLink
from qce_circuit.structure.registry_duration import temporary_override_get_registry_at, GlobalRegistryKey as K
from qce_circuit.visualization.visualize_circuit.draw_components.transform_constructor import TransformConstructor
from qce_circuit.visualization.visualize_circuit import display_circuit as dc
rec=[]
orig=TransformConstructor.identifier_to_pivot
def spy(self, identifier, time_component):
    v=orig(self, identifier, time_component); rec.append((type(time_component).__name__, identifier.id, v.x, v.y, tuple(self.channel_indices))); return v
TransformConstructor.identifier_to_pivot=spy
def times(c): return [(type(o).__name__, o.start_time, o.end_time) for o in c.operations]
CFG = {K.READOUT:7.,K.MICROWAVE:3.,K.FLUX:5.,K.RESET:11.}
def build():
    c=DeclarativeCircuit()
    sub=DeclarativeCircuit(repetition_strategy=FixedRepetitionStrategy(2))
    sub.add(Barrier([0,1])); sub.add(Rx180(0)); sub.add(Reset(1)); 
    c.add(sub); c.add(DispersiveMeasure(1, acquisition_strategy=c.get_acquisition_strategy()))
    return c.apply_modifiers()
with temporary_override_get_registry_at(CFG):
    c=build()
    before=times(c); d0=c.duration
    t=time.time(); fig,ax=plot_circuit(c, channel_order=[1,0]); plt.close(fig); print('plot s', time.time()-t)
    after=times(c)
    print('unchanged', before==after, d0==c.duration)
    if before!=after: print(before); print(after)
    RelationLink.get_start_time.cache_clear(); MultiRelationLink.get_start_time.cache_clear()
    print('truth', times(c)==before)
print(rec[:6])
print(fig.get_size_inches())
try:
    plot_circuit(c, channel_order=[5])
except ValueError as e: print('rejects', str(e)[:60])
