import warnings; warnings.filterwarnings('ignore')
import stim, numpy as np
from qce_circuit import *
from qce_circuit.language import InitialStateContainer
from qce_circuit.addon_stim import to_stim, apply_noise
from qce_circuit.library.repetition_code.circuit_constructors import construct_repetition_code_circuit
S=InitialStateEnum
init = InitialStateContainer.from_ordered_list([S.ZERO,S.ONE,S.ZERO],[S.ONE,S.ZERO])
c = construct_repetition_code_circuit(qec_cycles=3, initial_state=init)
sc = to_stim(c)
print(sc)
print('num meas', sc.num_measurements, 'det', sc.num_detectors, 'obs', sc.num_observables)
smp = sc.compile_sampler().sample(4)
print(smp.astype(int))
dets = sc.compile_detector_sampler().sample(8)
print(dets.astype(int).sum())
try:
    dem = sc.detector_error_model()
    print('dem ok', repr(dem)[:200])
except Exception as e:
    print('dem err', e)
