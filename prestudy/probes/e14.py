import warnings; warnings.filterwarnings('ignore')
import itertools, time
import numpy as np
from qce_circuit import *
from qce_circuit.language import InitialStateContainer
from qce_circuit.structure.intrf_acquisition_operation import AcquisitionTag
from qce_circuit.structure.intrf_circuit_operation import RelationLink, MultiRelationLink
from qce_circuit.library.repetition_code.circuit_constructors import construct_repetition_code_multi_round_circuit
from qce_circuit.library.repetition_code.circuit_components import RepetitionCodeDescription
from qce_circuit.structure.acquisition_indexing.kernel_repetition_code import RepetitionExperimentKernel
from qce_circuit.structure.acquisition_indexing.intrf_stabilizer_index_kernel import StateKey
S=InitialStateEnum
def clear():
    RelationLink.get_start_time.cache_clear(); MultiRelationLink.get_start_time.cache_clear()
t=time.time()
for d in (2,3):
  for rounds in ([0],[1],[2],[0,1],[1,0],[3,0,2],[0,3,6,2],[5,1]):
    clear()
    desc = RepetitionCodeDescription.from_chain(2*d-1)
    init = InitialStateContainer.from_ordered_list([S.ZERO]*d)
    c = construct_repetition_code_multi_round_circuit(qec_cycles=rounds, description=desc, initial_state=init)
    k = RepetitionExperimentKernel(rounds=rounds, heralded_initialization=True, qutrit_calibration_points=True,
        involved_data_qubit_ids=desc.data_qubit_ids, involved_ancilla_qubit_ids=desc.ancilla_qubit_ids, experiment_repetitions=1)
    for anc in desc.ancilla_qubit_ids:
        qi = desc.get_index(anc)
        allq = c.get_acquisition_indices(qi)
        her = c.get_acquisition_indices(AcquisitionTag(qi,'heralded'))
        par = c.get_acquisition_indices(AcquisitionTag(qi,'parity'))
        fin = c.get_acquisition_indices(AcquisitionTag(qi,'final'))
        kher = np.concatenate([k.get_heralded_cycle_acquisition_indices(anc, r).flatten() for r in rounds] + [k.get_heralded_calibration_acquisition_indices(anc, s) for s in StateKey])
        kstab = np.concatenate([k.get_stabilizer_and_projected_cycle_acquisition_indices(anc, r).flatten() for r in rounds])
        kcal = np.concatenate([k.get_projected_calibration_acquisition_indices(anc, s) for s in StateKey])
        ok = (sorted(her)==sorted(kher.astype(int))) 
        print(d, rounds, anc, 'n', len(allq), 'cycle', k.kernel_cycle_length, 'her ok', ok, 'par', list(par), 'kstab', list(kstab.astype(int)), 'fin', list(fin), 'kcal', list(kcal))
print(time.time()-t)
