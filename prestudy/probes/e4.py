import warnings; warnings.filterwarnings('ignore')
from qce_circuit import *
from qce_circuit.structure.intrf_circuit_operation import RelationLink, RelationType, QubitChannel
from qce_circuit.structure.circuit_operations import *
def desc(c):
    ops = c.operations
    idx = {id(o): i for i, o in enumerate(ops)}
    out = []
    for o in ops:
        ref = o.relation_link.reference_node
        out.append((type(o).__name__, [ (ci.id, ci.channel.name) for ci in o.channel_identifiers], o.relation_link.relation_type.name, idx.get(id(ref), type(ref).__name__ if ref is not None else None), o.start_time, o.end_time, o.duration))
    return out
# Barrier: A(q0) long, B(q1) short, barrier [0,1], then C(q0)
c = DeclarativeCircuit()
c.add(Reset(0)); c.add(Rx180(1)); c.add(Barrier([0,1])); c.add(Rx180(0))
print('orig'); [print('  ', d) for d in desc(c)]
t = DeclarativeCircuit(); t.add(c)
print('copy'); [print('  ', d) for d in desc(t)]

# Barrier with different ordering: explicit relation makes BFS order differ from insertion
c = DeclarativeCircuit()
a = c.add(Rx180(0)); b = c.add(Rx180(0)); d = c.add(Rx180(1, relation=RelationLink(a, RelationType.JOINED_START)))
c.add(Barrier([0,1]))
print('orig2'); [print('  ', d) for d in desc(c)]
t = DeclarativeCircuit(); t.add(c)
print('copy2'); [print('  ', d) for d in desc(t)]

# VirtualTwoQubitVacant
c = DeclarativeCircuit()
c.add(VirtualTwoQubitVacant(0,1, duration_strategy=FixedDurationStrategy(3.0), qubit_channel=QubitChannel.FLUX))
print('orig3'); [print('  ', d) for d in desc(c)]
t = DeclarativeCircuit(); t.add(c)
print('copy3'); [print('  ', d) for d in desc(t)]
