import warnings; warnings.filterwarnings('ignore')
import stim
from qce_circuit.addon_stim import to_stim, apply_noise
from qce_circuit.addon_stim.noise_settings_manager import NoiseSettings, QubitNoiseModelParameters, OperationDurationParameters
from qce_circuit.connectivity import QubitIDObj
i = stim.CircuitInstruction('MZ',[0],[0.01]); print(i.name, str(i))
c = stim.Circuit('''
R 0 1
TICK
X 0
TICK
CZ 0 1
TICK
M 0 1
TICK
H 1
M 1
''')
ns = NoiseSettings(default_t1=10e-6, default_t2=15e-6, default_assignment_error=0.02,
   individual_noise={QubitIDObj('D1'): QubitNoiseModelParameters(t1=5e-6,t2=5e-6,assignment_error=0.1)},
   operation_durations=OperationDurationParameters(duration_mz=400e-9, duration_cz=60e-9, duration_h=30e-9, duration_x=20e-9))
print(apply_noise(c, {0: QubitIDObj('D1')}, noise_settings=ns))
