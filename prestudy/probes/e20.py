import warnings; warnings.filterwarnings('ignore')
import sys; sys.argv=['x','0']
exec(open('e19.py').read().split("DM=int")[0])
h=[('sub', 1, (('X', 0), ('M', 1))), ('add', 'M', 0), ('obs', 'ops'), ('nest',)]
print(run(h)); print(run([e for e in h if e[0]!='obs']))
