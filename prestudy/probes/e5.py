import warnings; warnings.filterwarnings('ignore')
from qce_circuit import *
from qce_circuit.structure.intrf_circuit_operation import RelationLink, RelationType, QubitChannel
from qce_circuit.structure.circuit_operations import *
def times(c):
    return [(type(o).__name__, [ci.id for ci in o.channel_identifiers][0], o.start_time, o.end_time) for o in c.operations]
# long op with shorter JOINED_START successor
c = DeclarativeCircuit()
a = c.add(Reset(0)); c.add(Rx180(1, relation=RelationLink(a, RelationType.JOINED_START)))
print(times(c), 'duration', c.duration)
# op before first: JOINED_END with longer duration
c = DeclarativeCircuit()
a = c.add(Rx180(0)); c.add(Reset(1, relation=RelationLink(a, RelationType.JOINED_END)))
print(times(c), 'duration', c.duration)
# FOLLOWED_BY chain where another branch is longer but not leaf?  A(q0) ; B(q1) follows A (explicit) ; C(q0) follows A: both leaves. fine
# nested JOINED_END sub-circuit with unequal first ops
c = DeclarativeCircuit()
x = c.add(Reset(2)); x2 = c.add(Reset(2))
sub = DeclarativeCircuit(relation=RelationLink(x2, RelationType.JOINED_END))
sub.add(Reset(0)); sub.add(Rx180(1))
s = c.add(sub)
print('sub start/dur/end', s.start_time, s.duration, s.end_time)
print(times(c), 'duration', c.duration)
print('sub start/dur/end', s.start_time, s.duration, s.end_time)
