import warnings; warnings.filterwarnings('ignore')
import itertools, collections, time
from qce_circuit.structure.intrf_circuit_operation import ChannelIdentifier as CI, QubitChannel as QC
from qce_circuit.connectivity import QubitIDObj as Q, EdgeIDObj as E
from qce_circuit.utilities.array_manipulation import unique_in_order
from qce_circuit.connectivity.connectivity_surface_code import Surface17Layer
bad=collections.Counter()
ids=[CI(q,c) for q in (0,1,2) for c in QC]
for a in ids:
    for b in ids:
        exp = a.id==b.id and (a.channel==b.channel or QC.ALL in (a.channel,b.channel))
        if (a==b)!=exp: bad['ci-eq']+=1
        if (a==b)!=(b==a): bad['ci-sym']+=1
        if (a in [b])!=exp: bad['ci-in']+=1
names=[q.id for q in Surface17Layer().qubit_ids]+['D10','d1','','D1 ']
for x in names:
    for y in names:
        if (Q(x)==Q(y))!=(x==y): bad['q-eq']+=1
        if x==y and hash(Q(x))!=hash(Q(y)): bad['q-hash']+=1
for a,b in itertools.permutations(names,2):
    for c,d in itertools.permutations(names[:8],2):
        e1,e2=E(Q(a),Q(b)),E(Q(c),Q(d))
        exp={a,b}=={c,d}
        if (e1==e2)!=exp: bad['e-eq']+=1
        if exp and hash(e1)!=hash(e2): bad['e-hash']+=1
n=0
for L in range(0,7):
    for seq in itertools.product('abc',repeat=L):
        n+=1
        r=unique_in_order(seq); exp=[]
        for s in seq:
            if s not in exp: exp.append(s)
        if r!=exp: bad['uio']+=1
edges=[E(Q('D1'),Q('Z1')),E(Q('Z1'),Q('D1')),E(Q('D2'),Q('Z1'))]
for L in range(0,5):
    for seq in itertools.product(edges,repeat=L):
        r=unique_in_order(seq); exp=[]
        for s in seq:
            if s not in exp: exp.append(s)
        if len(r)!=len(exp) or any(x is not y for x,y in zip(r,exp)): bad['uio-edge']+=1
print(dict(bad), n)
