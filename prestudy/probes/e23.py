import warnings; warnings.filterwarnings('ignore')
import time, itertools
from qce_circuit import *
from qce_circuit.structure.circuit_operations import *
from qce_circuit.library.repetition_code.repetition_code_connectivity import Repetition9Code, Repetition9Round6Code, Repetition5Round4Code
from qce_circuit.library.repetition_code.circuit_components import RepetitionCodeDescription
from qce_circuit.connectivity.connectivity_surface_code import Surface17Layer
lay=Repetition9Code(); qs=Surface17Layer().qubit_ids
t=time.time(); n=0
for k in (2,3):
    for sub in itertools.combinations(qs,k):
        RepetitionCodeDescription.from_connectivity(list(sub), lay); n+=1
print(n, 'from_connectivity calls', (time.time()-t)/n*1000,'ms each')
# OpenQL recording
from qce_circuit.addon_openql import to_openql
from qce_circuit.addon_openql.platform_manager import PlatformManager
log=[]
class K:
    def __init__(s,name): s.name=name; s.g=[]
    def gate(s,n,q): s.g.append((n,tuple(q) if isinstance(q,(list,tuple)) else (q,)))
    def cz(s,a,b): s.g.append(('cz',(a,b)))
    def barrier(s,q): s.g.append(('barrier',tuple(q)))
    def wait(s,qubits,duration): s.g.append(('wait',tuple(qubits),duration))
class P:
    def __init__(s,name): s.name=name; s.items=[]
    def add_program(s,p): s.items.append(('prog',p))
    def add_kernel(s,k): s.items.append(('kern',k))
PlatformManager.construct_program=classmethod(lambda cls,name: P(name))
PlatformManager.construct_kernel=classmethod(lambda cls,name: K(name))
c = DeclarativeCircuit(); c.add(Rx180(0))
sub = DeclarativeCircuit(repetition_strategy=FixedRepetitionStrategy(2)); sub.add(Ry90(1)); sub.add(CPhase(0,1)); c.add(sub)
c.add(Rx90(0)); c.add(Wait(0, duration_strategy=FixedDurationStrategy(40)))
p=to_openql(c)
def dump(p,ind=0):
    print(' '*ind+'PROGRAM',p.name)
    for k,x in p.items:
        if k=='prog': dump(x,ind+2)
        else: print(' '*(ind+2)+'KERNEL',x.name,x.g)
dump(p)
