import warnings; warnings.filterwarnings('ignore')
from qce_circuit import *
def times(c):
    return [(type(o).__name__, o.qubit_index if hasattr(o,'qubit_index') else None, o.start_time, o.end_time) for o in c.operations]
def build():
    c = DeclarativeCircuit()
    mid = DeclarativeCircuit()
    inner = DeclarativeCircuit(repetition_strategy=FixedRepetitionStrategy(3))
    inner.add(Rx180(0))
    mid.add(inner)
    c.add(mid)
    c.add(Ry90(0))
    return c
c = build(); print('pre ', times(c), c.duration)
c.apply_modifiers(); print('post(observed before)', times(c), c.duration)
c = build(); c.apply_modifiers(); print('post(fresh)          ', times(c), c.duration)
