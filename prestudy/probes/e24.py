import warnings; warnings.filterwarnings('ignore')
import itertools, collections, time
import numpy as np
from qce_circuit.connectivity import QubitIDObj
from qce_circuit.structure.acquisition_indexing.kernel_repetition_code import RepetitionExperimentKernel, RepetitionIndexKernel
from qce_circuit.structure.acquisition_indexing.intrf_stabilizer_index_kernel import StateKey
D=[QubitIDObj('D1'),QubitIDObj('D2')]; A=[QubitIDObj('Z1')]
def lists(R):
    for k in range(1,R+2):
        for sub in itertools.permutations(range(R+1),k): yield list(sub)
bad=collections.Counter(); ex={}; n=0; t=time.time()
for rounds in lists(4):
  for her in (True,False):
    for reps in (1,2,3):
        n+=1
        k=RepetitionExperimentKernel(rounds=rounds, heralded_initialization=her, qutrit_calibration_points=True, involved_data_qubit_ids=D, involved_ancilla_qubit_ids=A, experiment_repetitions=reps)
        ks=k.indexing_kernels
        # contiguity
        if ks[0].start_index!=0: bad['start']+=1
        for a,b in zip(ks,ks[1:]):
            if b.start_index!=a.stop_index+1: bad['contig']+=1; ex.setdefault('contig',(rounds,her))
        cyc=k.kernel_cycle_length
        # expected cycle length
        h=1 if her else 0
        exp=sum(h+max(0,r-1)+1 for r in rounds)+3*h+3
        if cyc!=exp: bad['cycle']+=1; ex.setdefault('cycle',(rounds,her,cyc,exp))
        for q,isanc in ((A[0],True),(D[0],False)):
            cats=[]
            for r in rounds:
                H=k.get_heralded_cycle_acquisition_indices(q,r); S=k.get_stabilizer_and_projected_cycle_acquisition_indices(q,r); P=k.get_projected_cycle_acquisition_indices(q,r)
                cats.append(('h',r,H)); cats.append(('s',r,S))
                # projected subset of stabilizer+projected
                if not set(np.asarray(P).flatten().tolist())<=set(np.asarray(S).flatten().tolist()): bad['proj-subset']+=1
                # inside kernel
                kk=[x for x in k._repetition_kernels if x.nr_repeated_parities==r][0]
                for arr in (H,S):
                    a=np.asarray(arr)
                    if a.size:
                        rows=a.reshape(reps,-1)
                        for i,row in enumerate(rows):
                            if not all(kk.start_index+i*cyc<=v<=kk.stop_index+i*cyc for v in row): bad['inside']+=1; ex.setdefault('inside',(rounds,her,reps,r,row))
                            if i>0 and not (row==rows[0]+i*cyc).all(): bad['translate']+=1
            for s in StateKey:
                cats.append(('ch',s,k.get_heralded_calibration_acquisition_indices(q,s))); cats.append(('c',s,k.get_projected_calibration_acquisition_indices(q,s)))
            allv=[]
            for _,_,arr in cats: allv+=np.asarray(arr).flatten().astype(int).tolist()
            if len(set(allv))!=len(allv): bad['disjoint',isanc]+=1; ex.setdefault(('disjoint',isanc),(rounds,her,reps,sorted(allv)))
            if isanc:
                miss=set(range(cyc*reps))-set(allv)
                expmiss=sum(1 for r in rounds if r==0)*reps
                if len(miss)!=expmiss: bad['cover']+=1; ex.setdefault('cover',(rounds,her,reps,sorted(miss)))
        est=RepetitionExperimentKernel.estimate_experiment_repetitions(rounds,her,True,cyc*reps)
        if est!=reps: bad['estimate']+=1
print(n,'cases',time.time()-t,'s',dict(bad))
for k_,v in ex.items(): print(k_,v)
