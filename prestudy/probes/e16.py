import warnings; warnings.filterwarnings('ignore')
from qce_circuit import *
from qce_circuit.structure.intrf_circuit_operation import RelationLink, RelationType
from qce_circuit.structure.circuit_operations import *
def desc(c):
    ops = c.operations
    idx = {id(o): i for i, o in enumerate(ops)}
    return [(type(o).__name__, [ci.id for ci in o.channel_identifiers], o.relation_link.relation_type.name, idx.get(id(o.relation_link.reference_node)), o.start_time, o.end_time) for o in ops]
c = DeclarativeCircuit()
A = c.add(Rx180(0)); X = c.add(Rx180(1)); Y = c.add(Reset(1))
Bar = c.add(Barrier([0,1]))
Z = c.add(Rx180(0, relation=RelationLink(A, RelationType.FOLLOWED_BY)))
V = c.add(Rx180(1, relation=RelationLink(Z, RelationType.FOLLOWED_BY)))
print('orig'); [print('  ', d) for d in desc(c)]
t = DeclarativeCircuit(); t.add(c)
print('copy'); [print('  ', d) for d in desc(t)]
