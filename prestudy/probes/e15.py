import warnings; warnings.filterwarnings('ignore')
from qce_circuit import *
from qce_circuit.language import InitialStateContainer
from qce_circuit.addon_stim import to_stim
from qce_circuit.library.repetition_code.circuit_constructors import construct_repetition_code_circuit
S=InitialStateEnum
init = InitialStateContainer.from_ordered_list([S.ZERO,S.ONE,S.ZERO])
print(to_stim(construct_repetition_code_circuit(qec_cycles=1, initial_state=init)))
