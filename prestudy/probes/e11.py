import warnings; warnings.filterwarnings('ignore')
import itertools
from qce_circuit.connectivity.connectivity_surface_code import Surface17Layer, get_requires_parking
from qce_circuit.library.repetition_code.repetition_code_connectivity import Repetition9Code, Repetition9Round6Code, Repetition5Round4Code
import qce_circuit.connectivity as C, pkgutil, inspect
from qce_circuit.connectivity.generic_gate_sequence import GenericSurfaceCode
L = Surface17Layer()
for cls in (Repetition9Code, Repetition9Round6Code, Repetition5Round4Code):
    lay = cls()
    print(cls.__name__, lay.gate_sequence_count)
    seen = []
    for i in range(lay.gate_sequence_count):
        g = lay.get_gate_sequence_at_index(i)
        es = g.edge_ids
        for e in es:
            if e not in L.edge_ids: print('  layer',i,'not a device edge', e)
        qs = [q for e in es for q in e.qubit_ids]
        if len(set(qs))!=len(qs): print('  layer',i,'qubit in two gates')
        parks = [o.identifier for o in g.park_operations]
        for p in parks:
            if p in qs: print('  layer',i,'parked and gated',p)
        req = [q for q in L.qubit_ids if get_requires_parking(q, es, L)]
        miss = [q for q in req if q not in parks]
        extra = [q for q in parks if q not in req]
        if miss: print('  layer',i,'MISSING parks',miss)
        if extra: print('  layer',i,'extra parks (allowed)',extra)
        seen += es
    allpg = [e for pg in lay.parity_group_x+lay.parity_group_z for e in pg.edge_ids]
    for e in allpg:
        if seen.count(e)!=1: print('  parity edge', e, 'count', seen.count(e))
    for e in seen:
        if e not in allpg: print('  gate not in any parity group', e)
# any other layouts shipped?
import subprocess
print(subprocess.run("grep -rn 'GenericSurfaceCode\\|IGenericSurfaceCodeLayer' /repo/src --include=*.py -l", shell=True, capture_output=True, text=True).stdout)
