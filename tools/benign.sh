#!/bin/sh
# tools/benign.sh <dir with patch.diff> <check id> [...]: a property-preserving change must keep the suite green and every named check silent (exit 0).
DIR="$(cd "$1" && pwd)"; shift
HERE="$(cd "$(dirname "$0")/.." && pwd)"
WT="$(mktemp -d /tmp/qco-benign-XXXXXX)"; rmdir "$WT"
git -C /repo worktree add -q --detach "$WT" HEAD || exit 2
trap 'git -C /repo worktree remove --force "$WT" >/dev/null 2>&1; rm -rf "$WT"' EXIT
git -C "$WT" apply "$DIR/patch.diff" || { echo "BENIGN $DIR patch-does-not-apply"; exit 2; }
T=$(cd "$WT" && PYTHONPATH="$WT/src" MPLBACKEND=Agg TQDM_DISABLE=1 /venv/bin/python -m pytest -q -p no:cacheprovider --timeout=900 2>&1 | tail -1 | grep -o "[0-9]* passed")
OUT="tests=[$T]"
for ID in "$@"; do
  VERIF_REPO_SRC="$WT/src" "$HERE/check" "$ID" --tier quick > "/tmp/benign-$(basename "$DIR")-$ID.log" 2>&1; RC=$?
  OUT="$OUT $ID:rc=$RC"
done
echo "BENIGN $(basename "$DIR") $OUT"
