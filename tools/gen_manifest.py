#!/usr/bin/env python3
"""Generates /verif/MANIFEST.json from the table below (kept in one place so that it stays valid)."""
import json
import os

HOME = os.path.dirname(os.path.dirname(os.path.abspath(__file__)))

MC = 'model_checking'
EX = 'exploration'

CHECKS = {
    'C01': (MC, '4/C01', 'explicit-state exploration of all build programs up to a bound vs reference scheduler',
            'Every program of the flat space F(3) (95 415 programs, 15 atoms x every relation type x every earlier entry) under two duration '
            'configurations and of the nested space N1 (blocks, repetitions, relations to blocks) is executed on the real library; the relation '
            'of every entry is compared with the program (explicit) or with the admissible implicit predecessors of the reference model, and all '
            'reported start/end times with an independent solution of the relation equations, as built and after apply_modifiers(). Further families: deviation-bounded programs of up to 6 entries with at most 2 explicit relations, blocks with a relation of their own (incl. JOINED_END: known finding F23, attributed by a counterfactual), extra block shapes under two duration orders; every top-level relation is followed through flatten().',
            'bounded program length / alphabet / duration configurations; reference model mc/ref/schedule.py trusted'),
    'C02': (MC, '4/C02', 'explicit-state exploration of all build programs up to a bound vs listing model',
            'Same program spaces as C01; for every program the listing must be a duplicate-free permutation of the added leaves by identity, blocks '
            'expanded in place with the content of their body, causal with respect to every reported relation, stable under re-listing, and '
            'add/get_last_entry must return the added objects. Every program is also built with intermediate listings, with shared relation objects and with blocks handed over as structures (whose sources then grow); after unrolling the listing is counted against the program.',
            'bounded program length / alphabet; listing order itself is not prescribed beyond causality and in-place expansion'),
    'C04': (MC, '4/C04', 'explicit-state exploration of all build programs up to a bound vs span oracle',
            'Same program spaces as C01 (they contain both shapes named in the statement); duration of the circuit and of every nested block must '
            'equal max end - min start over the contained operations, 0 when empty, and the follower clause is evaluated for every relation to a block (as built, unrolled, after flatten()). Two listed findings (F23: block placed JOINED_END; F24: nested block whose content starts before it) are attributed by a counterfactual resp. an alternative specification evaluated on the failing case.',
            'bounded program length / alphabet / duration configurations'),
    'C03': (MC, '4/C03', 'deviation-bounded exhaustive exploration of mutation/observation histories, differential oracle',
            'Every mutation sequence up to length 3 (4 in the thorough tier) over 15 mutation kinds is executed with every placement of one '
            'intermediate observation of every kind (and length <= 2 with two), and its full observation vector is compared with the same mutations replayed '
            'without observations on a cleared world (22 mutation kinds incl. growing nested blocks, registry counts, leaving an override by an exception; histories also start from a non-initial state; the duration is asked before anything is listed; the global durations must be restored after an override).',
            'bounded history length and number of observations; hidden state compared through public observers only'),
    'C05': (MC, '4/C05', 'explicit-state exploration of build programs over all operation classes, three copy routes, one-step independence',
            'Per-class copy obligations for every concrete operation class found by introspection (all init fields non-default, every relation type); all flat programs '
            'of length <= 2 over all classes and <= 3 over footprint representatives plus nested programs, each copied by nesting, circuit_structure.copy() and '
            'top-level repetition and compared row by row with the original; then five mutations applied cumulatively to the original resp. the copy with the '
            'other side re-read after each; further routes: explicit copies of block entries, copies of unrolled and of unrolled-and-flattened circuits re-read under three configurations, blocks handed to add as structures.',
            'bounded program length / alphabet; differential oracle copy vs original'),
    'C06': (MC, '4/C06', 'explicit-state exploration of nested/repeated build programs vs reference model of unrolling',
            'All programs of N2(2) (166 056: blocks with any body of 1-2 atoms, counts 1..3), N1(3) (explicit relations to blocks), a two-level space (nested counts multiply) '
            'and top-level / registry-provided counts are unrolled on the real library; multiplicities, reset of counts, untouched outer operations, the full schedule of the '
            'copies (against the model: each copy follows the latest-ending relation leaf), the n*T clause and idempotence are checked on every one; unrolled circuits are re-timed under other configurations; empty blocks, shared registry counts and counts set after the circuit was built are included.',
            'bounded program spaces; model schedule used only where model and implementation agree as built'),
    'C07': (MC, '4/C07', 'explicit-state exploration of build programs with measurements vs positional indexer',
            'All programs of length <= 2 whose entries are measurements (3 qubits x tags), gates or blocks with any body of 1-2 atoms, counts 1..3, measurements created against the '
            'block\'s own or the outermost registry (plus a second nesting level), modifiers applied: circuit-level and per-qubit indices must be the positions in the listing, '
            'filters by qubit and by (qubit, tag) - asked with the tags as given - exact in count and a partition, the exported measurement record in index order, and indices monotone in start time (incl. repeated blocks with a chain of three measurements next to a long operation).',
            'bounded program spaces; monotonicity only for relation-free programs without channel overlap'),
    'C08': (MC, '4/C08', 'explicit-state exploration of build programs vs independent Stim translator',
            'All flat programs of length <= 2 over all 26 operation classes, all N2(2) programs (blocks x counts), a two-level space, an annotation box (every target shape of detector / '
            'observable / shift, alone and inside a repeated block) and library constructors are exported; the exported program (REPEAT unrolled, fused targets split) must equal the '
            'reference translation of the listing instruction by instruction, the multiset of instructions must be what the leaves of the program translate to (one block per operation class, registry counts set after build), and before/after unrolling agree as required.',
            'bounded program spaces; reference translator mc/ref/stim_tr.py; Stim trusted as parser/printer'),
    'C11': (MC, '4/C11', 'explicit-state exploration of nested build programs + exhaustive box of library constructor inputs',
            'All N2(2), N1(3) and two-level programs are flattened (as built / after unrolling): multiset of (kind, qubits, duration, tag) unchanged, no sub-circuit left, idempotent. '
            'For every modifier-applied repetition-code circuit in the constructor box (distance x cycles x refocusing x state) and multi-round circuits: listing order, schedule, '
            'acquisition indices and exported Stim program compared before/after flatten().',
            'bounded program spaces and constructor box; identity clauses for library circuits only'),
    'C15': (MC, '4/C15', 'explicit-state exploration of build programs vs independent OpenQL translator on a recording platform',
            'All flat programs of length <= 2 over all 26 operation classes, all N2(2) programs and a two-level space are exported through to_openql with PlatformManager.construct_program / '
            'construct_kernel replaced (inside the checker) by recorders; the linearised call tree must equal the reference translation of the listing (gate table, cz + barrier + two phase updates, '
            'wait duration, block position and multiplicity), the multiset of steps must be what the leaves of the program translate to, kernel names must be unique, exporting twice must give the same names and the names must not depend on what the process exported before (fresh interpreters, both orders). Thorough tier: the recorder is bound to real OpenQL by compiling a fixed family and parsing the cQASM.',
            'bounded program spaces; recording stand-in for the OpenQL platform (validated against real OpenQL in the thorough tier)'),
    'C12': (EX, '4/C12', 'exhaustive enumeration of experiment descriptions vs reference cycle layout',
            'All lists of distinct round counts from {0..4} (thorough {0..6}) in any order x heralded on/off x calibration points on/off x repetitions 1..3 x five qubit sets (the lists of the caller are changed after construction): kernel spans, contiguity, every index '
            'category of every involved (and an uninvolved) qubit compared with the reference layout, plus disjointness, containment, coverage with the documented missing slot, translation by the '
            'cycle length and the repetition estimate.',
            'finite input box; reference layout mc/ref/kernel.py'),
    'C18': (MC, '4/C18', 'explicit-state exploration of build programs x drawing settings, spies on the visual description and pivots',
            'Every class alone and all flat programs of length <= 2 over 15 atoms are drawn under every permutation of every prefix of the occupied channels x three label maps x compact / non-compact x '
            'two global configurations; all flat programs of length <= 2 over all classes and nested programs (as built and unrolled) under one or two settings. Rows, x = reported start under the durations in '
            'force for the drawing, figure width, labels, anchors of two-point components, rejection of unknown channels and the full observation vector before/after each (also each rejected) drawing are checked.',
            'bounded program spaces; positions observed through harness-side spies; cosmetic offsets not judged; drawing-as-deviation histories are explored by C03'),
    'C19': (EX, '4/C19', 'exhaustive enumeration of finite relations',
            'All ordered triples of channel identifiers over 3 qubits x 4 channels (==, !=, symmetry, membership), all ordered pairs of 21 qubit names and all ordered pairs of edges over them '
            '(equality, symmetry, hash consistency, set behaviour), unique_in_order on all sequences up to length 6 over 3 letters and on edge sequences with reversed duplicates; identifier part '
            'repeated in fresh interpreters under three more PYTHONHASHSEED values.',
            'finite domains as listed; self-loop edges excluded'),
    'C16': (EX, '4/C16', 'exhaustive enumeration of edge subsets vs frequency-collision predicate',
            'All 2 324 subsets of up to three (thorough: 12 950 of up to four) of the 24 Surface-17 edges: get_mutually_allowed vs the reference predicate (also under reversed gate/qubit order); for every '
            'subset of pairwise disjoint gates all 17 qubits vs the parking predicate; the sequence generator on fixed edge lists x subgroup sizes (each gate once, only accepted steps, no duplicates, parking reported per step directly and through the generic layer), two generator runs per fresh interpreter.',
            'finite: all subsets up to the stated size; independent device model mc/ref/freq.py'),
    'C17': (EX, '4/C17', 'exhaustive enumeration of layout tables, involved-qubit subsets and exclusions',
            'Surface-17 tables against an independent device model (qubits, edges, neighbours, parity groups, frequency groups, feedlines); every layer of the three shipped repetition layouts; '
            'RepetitionCodeDescription.from_connectivity for all subsets up to size 4 (thorough: all subsets) of the gate-taking qubits of each layout, all orderings of small subsets; composite '
            'descriptions with every single and pair of excluded edges / qubits, with and without only-required parking.',
            'finite: shipped tables and the stated subsets; reference device model mc/ref/freq.py'),
    'C09': (EX, '4/C09', 'exhaustive enumeration of constructor inputs; exported program executed on a tableau simulator vs classical protocol model',
            'Distance 2..4 (thorough 5) x all 2^(2d-1) computational states of data and ancilla qubits x cycles 0..6 x refocusing on/off for chain descriptions, plus every contiguous '
            'sub-chain of the three shipped layouts through from_connectivity; each circuit as built, unrolled and flattened: every measurement deterministic (peek_z), the record equal to the '
            'protocol model per qubit in time order, (d-1)(cycles+1) detectors each pairing measurements of one ancilla, one observable, detector_error_model() succeeds; layout sub-chains are taken in both directions.',
            'finite input box; Stim trusted as executor; protocol model mc/ref/protocol.py'),
    'C10': (EX, '4/C10', 'exhaustive enumeration of constructor inputs x duration configurations, overlap sweep',
            'Chain and simplified repetition-code constructors, layout sub-chains and calibration circuits x every assignment of {1,2,3} (thorough {0.5,1,2,3.5}) to (readout, microwave, flux, reset) - every '
            'strict order and tie pattern of the four lengths; each circuit is constructed, unrolled and timed inside the override and swept per qubit channel for overlapping operations of non-zero length.',
            'finite input box and duration grid; continuous durations are covered on the grid only'),
    'C13': (EX, '4/C13', 'exhaustive enumeration of rounds lists x distances: experiment circuit vs index kernel vs reference layout',
            'All lists of distinct round counts from {0..4} (distance 2) and {0..3} (distance 3) in any order x three state patterns: the multi-round circuit is constructed and, per ancilla, the indices tagged '
            'heralded / parity / final are compared with the kernel\'s heralded / stabilizer+projected / calibration indices (experiment_repetitions = 1), with the cycle length, and both with the reference layout; '
            'the only accepted difference is the 0-round slot. A second family takes the description from a layout sub-chain (default and device-wide channel map), without refocusing, and with a 28-round block.',
            'finite input box; reference layout mc/ref/kernel.py'),
    'C14': (EX, '4/C14', 'exhaustive enumeration of exported circuits x noise-settings grid vs reference noise formula',
            'Exported Stim circuits of all relation-free programs of length <= 2 over the supported kinds (with repeated blocks) and repetition-code circuits x 54 settings (three T1/T2 pairs incl. the clamp case, '
            'three assignment errors, per-qubit override, two duration tables, three index maps): stripping noise returns the flattened input, probabilities in range, per-qubit assignment errors, and the '
            'idling channel before/after every TICK-delimited block equals the T1/T2 formula for half the longest configured duration.',
            'finite circuit space and settings grid; reference formula mc/ref/noise.py'),
}


def main():
    checks = []
    for pid, (level, ref, technique, text, note) in sorted(CHECKS.items()):
        checks.append({
            'property_id': pid,
            'quick_cmd': './check %s --tier quick' % pid,
            'thorough_cmd': './check %s --tier thorough' % pid,
            'evidence_file': 'evidence/%s.json' % pid,
            'replay_cmd_template': './check replay {path}',
            'engine': 'mc-explorer',
            'level_claimed': {'category': level, 'text': text, 'design_ref': 'DESIGN.md section ' + ref},
            'level_note': note,
            'technique': technique,
        })
    all_props = ['C%02d' % i for i in range(1, 20)]
    na = [{'property_id': p, 'reason': 'no check registered'} for p in all_props if p not in CHECKS]
    man = {
        'version': 1,
        'setup_cmd': './check selftest',
        'hooks': {
            'guard': 'QCOCIRCUITS_VERIF',
            'enable': 'no source hooks exist; ./check exports QCOCIRCUITS_VERIF=1 and imports the library from /repo/src (PYTHONPATH), harness-side wrapping only',
            'baseline_off_cmd': 'cd /repo && /venv/bin/python -m pytest -ra -q -p no:cacheprovider --timeout=900 --continue-on-collection-errors',
            'source_commits': [],
            'add_only': True,
        },
        'engines': [{
            'name': 'mc-explorer',
            'path': 'mc/engine.py',
            'serves_properties': sorted(CHECKS),
            'kind_free_text': 'hand-written explicit-state / stateless explorer: complete enumeration of bounded program, history and input spaces, '
                              'every case executed on the real library in a process pool and compared with Python reference models',
        }],
        'checks': checks,
        'not_applicable': na,
        'notes': 'Exit codes: 0 held (KNOWN-FINDING lines allowed), 1 VIOLATION, 2 harness error. VERIF_SEED permutes shard order only. '
                 'VERIF_REPO_SRC=<dir>/src points the checks at a scratch copy (used only for seeded-change campaigns).',
    }
    with open(os.path.join(HOME, 'MANIFEST.json'), 'w') as f:
        json.dump(man, f, indent=1)
        f.write('\n')


if __name__ == '__main__':
    main()
