#!/bin/sh
# Runs kept seeded changes against the checks named in their meta.json (caught_by); results go to seeded/RESULTS-<tag>.txt
#   tools/seeded_all.sh [tag [glob]]      default: tag=all glob='seeded/C*-*/'
cd "$(dirname "$0")/.."
TAG="${1:-all}"; GLOB="${2:-seeded/C*-*/}"
OUT="seeded/RESULTS-$TAG.txt"
: > "$OUT"
for d in $GLOB; do
  ids=$(python3 -c "import json,sys; print(' '.join(json.load(open('$d/meta.json'))['caught_by']))")
  tools/seeded.sh "$d" $ids 2>&1 | grep RESULT | sed "s#$(pwd)/##" >> "$OUT"
done
cat "$OUT"
