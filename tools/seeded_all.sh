#!/bin/sh
# Runs every kept seeded change against the checks named in its meta.json (caught_by) and writes seeded/RESULTS.txt
cd "$(dirname "$0")/.."
: > seeded/RESULTS.txt
for d in seeded/C*-*/; do
  ids=$(python3 -c "import json,sys; print(' '.join(json.load(open('$d/meta.json'))['caught_by']))")
  tools/seeded.sh "$d" $ids 2>&1 | grep RESULT | sed "s#$(pwd)/##" >> seeded/RESULTS.txt
done
cat seeded/RESULTS.txt
