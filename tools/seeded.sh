#!/bin/sh
# Confirms one seeded change and runs checks against it.
#   tools/seeded.sh <dir with patch.diff and demo.py> <check id> [<check id> ...]
# Works on a scratch worktree of /repo's HEAD (outside /repo and /verif), removed afterwards:
#   1. the patch applies, 2. the pinned test suite still passes on the patched copy,
#   3. demo.py fails (exit 1) on the patched copy and passes (exit 0) on /repo,
#   4. each named quick check is run against the patched copy (VERIF_REPO_SRC) - expected: VIOLATION.
DIR="$(cd "$1" && pwd)"; shift
HERE="$(cd "$(dirname "$0")/.." && pwd)"
WT="$(mktemp -d /tmp/qco-seeded-XXXXXX)"
rmdir "$WT"
git -C /repo worktree add -q --detach "$WT" HEAD || exit 2
cleanup() { git -C /repo worktree remove --force "$WT" >/dev/null 2>&1; rm -rf "$WT"; }
trap cleanup EXIT
if ! git -C "$WT" apply "$DIR/patch.diff"; then echo "RESULT $DIR patch-does-not-apply"; exit 2; fi
TESTS=$(cd "$WT" && PYTHONPATH="$WT/src" MPLBACKEND=Agg TQDM_DISABLE=1 /venv/bin/python -m pytest -q -p no:cacheprovider --timeout=900 2>&1 | tail -1)
case "$TESTS" in *"61 passed"*) T=ok ;; *) T="FAIL($TESTS)" ;; esac
(cd "$DIR" && PYTHONPATH="$WT/src" MPLBACKEND=Agg TQDM_DISABLE=1 /venv/bin/python demo.py >/tmp/seeded-demo-mut.log 2>&1); D1=$?
(cd "$DIR" && PYTHONPATH=/repo/src MPLBACKEND=Agg TQDM_DISABLE=1 /venv/bin/python demo.py >/tmp/seeded-demo-clean.log 2>&1); D0=$?
OUT="tests=$T demo_mutated=$D1 demo_clean=$D0"
for ID in "$@"; do
  LOG="/tmp/seeded-$(basename "$(dirname "$DIR")")-$(basename "$DIR")-$ID.log"
  VERIF_REPO_SRC="$WT/src" "$HERE/check" "$ID" --tier "${SEEDED_TIER:-quick}" > "$LOG" 2>&1
  RC=$?
  NV=$(grep -c "^VIOLATION" "$LOG")
  OUT="$OUT $ID:rc=$RC,violations=$NV"
done
echo "RESULT $DIR $OUT"
