#!/usr/bin/env python3
"""Prints the table of DESIGN.md section 5 from the committed evidence files (quick tier)."""
import glob
import json
import os

HOME = os.path.dirname(os.path.dirname(os.path.abspath(__file__)))
print('| id | level | executions | states (model checking) / distinct non-trivial (exploration) | wall | known findings matched | families (executions) |')
print('|---|---|---|---|---|---|---|')
for f in sorted(glob.glob(os.path.join(HOME, 'evidence', 'C*.json'))):
    d = json.load(open(f))
    c = d['coverage']
    second = c.get('states', c.get('distinct_nontrivial', c.get('distinct_outcomes')))
    fam = '; '.join('%s %d' % (k, v['executions']) for k, v in sorted(c.get('per_family', {}).items()))
    kf = c.get('known_findings_matched') or {}
    print('| %s | %s | %d | %s | %d s | %s | %s |' % (d['property_id'], d['level'], c.get('executions', c.get('evaluations', 0)), second, round(d['wall_s']),
                                                ', '.join('%s x%d' % kv for kv in sorted(kf.items())) or '-', fam))
