#!/bin/sh
# Runs every registered check of a tier (default quick) and validates the evidence files.
TIER="${1:-quick}"
cd "$(dirname "$0")/.."
rc_all=0
for i in 01 02 03 04 05 06 07 08 09 10 11 12 13 14 15 16 17 18 19; do
  start=$(date +%s)
  ./check C$i --tier "$TIER" > /tmp/verif-run-C$i.log 2>&1
  rc=$?
  end=$(date +%s)
  echo "C$i rc=$rc $((end-start))s $(head -1 /tmp/verif-run-C$i.log | cut -c1-160)"
  grep -h "^VIOLATION\|^KNOWN-FINDING\|HARNESS" /tmp/verif-run-C$i.log | cut -c1-200
  [ $rc -ne 0 ] && rc_all=1
done
python3-vt - <<'P'
import json, jsonschema, glob
sch = json.load(open('/root/.vp/EVIDENCE.schema.json'))
for f in sorted(glob.glob('evidence/C*.json')):
    try:
        jsonschema.validate(json.load(open(f)), sch)
    except Exception as e:
        print('INVALID', f, str(e)[:200])
print('evidence validated')
P
exit $rc_all
