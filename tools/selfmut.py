#!/usr/bin/env python3
"""Own mutation smoke test (DESIGN.md section 8, 'planned' list): textual mutations applied one at a time to a
scratch worktree of /repo HEAD; the named quick checks must report VIOLATION.  Usage: tools/selfmut.py [name ...]"""
import os
import subprocess
import sys
import tempfile

HERE = os.path.dirname(os.path.dirname(os.path.abspath(__file__)))
S = 'src/qce_circuit/'
MUTS = [
    ('je-sign', S + 'structure/intrf_circuit_operation.py', 'return self.reference_node.end_time - duration', 'return self.reference_node.end_time + duration', ['C01']),
    ('first-leaf', S + 'structure/intrf_circuit_operation_composite.py', 'for node in reversed(list(self.get_node_iterator())):', 'for node in list(self.get_node_iterator()):', ['C01']),
    ('earliest-multi', S + 'structure/intrf_circuit_operation.py', 'if node.end_time > latest_node.end_time:', 'if node.end_time < latest_node.end_time:', ['C01', 'C06']),
    ('js-as-fb', S + 'structure/intrf_circuit_operation.py', 'return self.reference_node.start_time\n', 'return self.reference_node.end_time\n', ['C01']),
    ('span-leaves-only', S + 'structure/intrf_circuit_operation_composite.py', 'for end_node in self._circuit_graph.get_node_iterator():', 'for end_node in self._circuit_graph.leaf_nodes:', ['C04']),
    ('no-clear-on-add', S + 'structure/intrf_circuit_operation_composite.py', '        clear_start_time_cache()  # Circuit structure changes\n        # Data allocation', '        # Data allocation', ['C03']),
    ('no-clear-on-setreg', S + 'structure/registry_duration.py', '        self._variable_durations[key] = value\n        clear_start_time_cache()  # Duration settings change', '        self._variable_durations[key] = value', ['C03']),
    ('override-left-on', S + 'structure/registry_duration.py', '    finally:\n        GlobalDurationRegistry.get_registry_at = original_method', '    finally:\n        pass', ['C03', 'C18']),
    ('wait-copy-forgets-channel', S + 'structure/circuit_operations.py', "            qubit_channel=self.qubit_channel,\n            duration_strategy=self.duration_strategy,\n        )\n    # endregion\n\n\n@dataclass(frozen=False, unsafe_hash=True)\nclass Identity", "            duration_strategy=self.duration_strategy,\n        )\n    # endregion\n\n\n@dataclass(frozen=False, unsafe_hash=True)\nclass Identity", ['C05']),
    ('rx90-copy-drops-link', S + 'structure/circuit_operations.py', "        return Rx90(\n            qubit_index=self.qubit_index,\n            relation=self.relation.copy(relation_transfer_lookup=relation_transfer_lookup),\n        )", "        return Rx90(\n            qubit_index=self.qubit_index,\n        )", ['C05']),
    ('repeat-strategy-not-reset', S + 'structure/intrf_circuit_operation_composite.py', '        self.repetition_strategy = FixedRepetitionStrategy(repetitions=1)\n', '        pass\n', ['C06']),
    ('repeat-one-less', S + 'structure/intrf_circuit_operation_composite.py', 'for i in range(times - 1):', 'for i in range(max(times - 2, 1 if times > 1 else 0)):', ['C06']),
    ('acq-counter-before-match', S + 'structure/registry_acquisition.py', "                if key_match:\n                    return AcquisitionIndexInfo(", "                if qubit_id_match and not key_match and operation.acquisition_identifier.tag != key.tag:\n                    qubit_level_acquisition_index += 0\n                if key_match:\n                    return AcquisitionIndexInfo(", []),
    ('acq-per-tag', S + 'structure/registry_acquisition.py', 'qubit_id_match: bool = operation.acquisition_identifier.qubit_index == key.qubit_index', 'qubit_id_match: bool = operation.acquisition_identifier.equal_tag(key)', ['C07']),
    ('stim-swap-sqrt', S + 'addon_stim/factory_manager.py', "Rx90: NameBasedOperationsFactory('SQRT_X'),", "Rx90: NameBasedOperationsFactory('SQRT_X_DAG'),", ['C08']),
    ('stim-detector-ref', S + 'addon_stim/circuit_operations.py', 'ref_target: int = main_target - self.reference_offset', 'ref_target: int = main_target - self.reference_offset - 1', ['C08']),
    ('stim-no-repeat', S + 'addon_stim/intrf_stim_factory.py', 'result_circuit += inner_circuit * operation.nr_of_repetitions', 'result_circuit += inner_circuit', ['C08']),
    ('repcode-min', S + 'library/repetition_code/circuit_components.py', None, None, []),
    ('dd-wait-no-half', S + 'library/repetition_code/circuit_components.py', None, None, []),
    ('flatten-one-level', S + 'structure/intrf_circuit_operation_composite.py', '            result.extend(node.operation.decomposed_operations())\n        return result', '            result.extend(node.operation.decomposed_operations() if not isinstance(node.operation, CircuitCompositeOperation) or not node.operation.get_sub_composite_operations() else node.operation.decomposed_operations()[:-1])\n        return result', ['C11', 'C02']),
    ('kernel-heralded-twice', S + 'structure/acquisition_indexing/kernel_repetition_code.py', 'return list(self._exclusive_start_index + self.index_delta_heralded_initialization + index_array)', 'return list(self._exclusive_start_index + (2 * self.index_delta_heralded_initialization if self.nr_repeated_parities == 2 else self.index_delta_heralded_initialization) + index_array)', ['C12', 'C13']),
    ('noise-min-duration', S + 'addon_stim/noise_factories/factory_pauli_noise.py', 'max_duration: float = max([', 'max_duration: float = min([', ['C14']),
    ('noise-default-lookup', S + 'addon_stim/noise_settings_manager.py', '        if self.contains(index):\n            qubit_id: IQubitID = self.qubit_index_lookup[index]\n            return self.noise_settings.get_noise_settings(qubit_id)', '        if self.contains(index) and index > 1:\n            qubit_id: IQubitID = self.qubit_index_lookup[index]\n            return self.noise_settings.get_noise_settings(qubit_id)', ['C14']),
    ('openql-x90', S + 'addon_openql/factory_manager.py', "Rx180: NameBasedOperationsFactory('x180'),", "Rx180: NameBasedOperationsFactory('x90'),", ['C15']),
    ('openql-double-sub', S + 'addon_openql/intrf_openql_factory.py', 'for i in range(operation.nr_of_repetitions):', 'for i in range(operation.nr_of_repetitions + (1 if operation.nr_of_repetitions == 3 else 0)):', ['C15']),
    ('freq-mid-low', S + 'connectivity/intrf_connectivity_surface_code.py', 'if self.id == FrequencyGroup.MID and other.id == FrequencyGroup.LOW:\n            return True', 'if self.id == FrequencyGroup.MID and other.id == FrequencyGroup.LOW:\n            return False', ['C16']),
    ('moving-side-inverted', S + 'connectivity/connectivity_surface_code.py', 'return qubit_frequency_identifier.is_higher_than(other_frequency_identifier)', 'return qubit_frequency_identifier.is_lower_than(other_frequency_identifier)', ['C16']),
    ('layout-typo', S + 'library/repetition_code/repetition_code_connectivity.py', "Operation.type_gate(EdgeIDObj(QubitIDObj('Z1'), QubitIDObj('D4'))),", "Operation.type_gate(EdgeIDObj(QubitIDObj('Z1'), QubitIDObj('D1'))),", ['C17']),
    ('from-connectivity-any', S + 'library/repetition_code/circuit_components.py', 'if all([qubit_id in involved_qubit_ids for qubit_id in element.identifier.qubit_ids])]', 'if any([qubit_id in involved_qubit_ids for qubit_id in element.identifier.qubit_ids])]', ['C17']),
    ('channel-all-ordinary', S + 'structure/intrf_circuit_operation.py', 'qubit_channel_included: bool = self.channel == QubitChannel.ALL or other.channel == QubitChannel.ALL', 'qubit_channel_included: bool = self.channel == QubitChannel.ALL and other.channel == QubitChannel.ALL', ['C19', 'C01']),
    ('edge-ordered-hash', S + 'connectivity/intrf_channel_identifier.py', 'return hash((min(self.qubit_id0.__hash__(), self.qubit_id1.__hash__()), max(self.qubit_id0.__hash__(), self.qubit_id1.__hash__())))', 'return hash((self.qubit_id0.__hash__(), self.qubit_id1.__hash__()))', ['C19']),
    ('draw-row-by-value', S + 'visualization/visualize_circuit/draw_components/transform_constructor.py', 'y=-1 * self.channel_indices.index(identifier.id) * self.channel_spacing', 'y=-1 * sorted(self.channel_indices).index(identifier.id) * self.channel_spacing', ['C18']),
    ('draw-width', S + 'visualization/visualize_circuit/display_circuit.py', 'channel_width=end_time + 1.0,', 'channel_width=len(operations) + 1.0,', ['C18']),
]


FIRST_OCCURRENCE = ('layout-typo',)


def run(cmd, **kw):
    return subprocess.run(cmd, shell=True, capture_output=True, text=True, **kw)


def main():
    names = set(sys.argv[1:])
    wt = tempfile.mkdtemp(prefix='qco-selfmut-')
    os.rmdir(wt)
    run('git -C /repo worktree add -q --detach %s HEAD' % wt)
    try:
        for name, path, old, new, checks in MUTS:
            if old is None or not checks or (names and name not in names):
                continue
            run('git -C %s checkout -- .' % wt)
            full = os.path.join(wt, path)
            src = open(full).read()
            if src.count(old) != 1 and name not in FIRST_OCCURRENCE:
                print('%-28s SKIP: pattern occurs %d times' % (name, src.count(old)))
                continue
            open(full, 'w').write(src.replace(old, new, 1))
            t = run('cd %s && PYTHONPATH=%s/src MPLBACKEND=Agg TQDM_DISABLE=1 /venv/bin/python -m pytest -q -p no:cacheprovider --timeout=900 2>&1 | tail -1' % (wt, wt)).stdout.strip()
            tests = 'tests-pass' if '61 passed' in t else 'TESTS-FAIL(%s)' % t[-40:]
            out = []
            for c in checks:
                r = run('VERIF_REPO_SRC=%s/src %s/check %s --tier quick' % (wt, HERE, c))
                nv = r.stdout.count('\nVIOLATION')
                out.append('%s:rc=%d,viol=%d' % (c, r.returncode, nv))
            print('%-28s %s %s' % (name, tests, ' '.join(out)))
            sys.stdout.flush()
    finally:
        run('git -C /repo worktree remove --force %s' % wt)


if __name__ == '__main__':
    main()
